#!/bin/bash
# Offline set-up: overlay venv on /venv (which holds evo's own dependencies)
# plus z3-solver / crosshair-tool / cvc5 / jsonschema from the local wheelhouse.
set -e
HERE="$(cd "$(dirname "$0")" && pwd)"
cd "$HERE"
if [ ! -x .venv/bin/python ]; then
  /venv/bin/python -m venv .venv
fi
SP=$(.venv/bin/python -c "import sysconfig; print(sysconfig.get_paths()['purelib'])")
echo "import site; site.addsitedir('/venv/lib/python3.12/site-packages')" > "$SP/_overlay.pth"
.venv/bin/python -c "import z3, crosshair, cvc5, jsonschema" 2>/dev/null || \
  PIP_NO_INDEX=1 .venv/bin/pip install -q --no-index --find-links /opt/veriftools/wheels z3-solver crosshair-tool cvc5 jsonschema
.venv/bin/python -c "import z3, numpy, scipy, evo; print('setup ok: z3', z3.get_version_string())"
