#!/usr/bin/env python3
"""regenerates seeded/*/meta.json and the seed table of DESIGN.md 11.3"""
import os
import re
import subprocess
import sys
HERE = os.path.dirname(os.path.dirname(os.path.abspath(__file__)))
tab = subprocess.run([sys.executable, os.path.join(HERE, "tools", "mk_seed_meta.py")], capture_output=True, text=True, check=True).stdout
p = os.path.join(HERE, "DESIGN.md")
s = open(p).read()
s = re.sub(r"<!-- SEED_TABLE_BEGIN -->.*<!-- SEED_TABLE_END -->", "<!-- SEED_TABLE_BEGIN -->\n" + tab.replace("\\", "\\\\") + "<!-- SEED_TABLE_END -->", s, flags=re.S)
open(p, "w").write(s)
print(tab.strip().split("\n")[-1])
