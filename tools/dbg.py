#!/usr/bin/env python3
"""debug helper: run one case of a harness in-process, print slow queries and details
usage: tools/dbg.py C09 angle_range_symmetry [tier] [slow_s]"""
import sys, time, os, importlib
HERE = os.path.dirname(os.path.dirname(os.path.abspath(__file__)))
sys.path.insert(0, HERE)
os.environ.setdefault("HOME", os.path.join(HERE, ".home"))
import warnings; warnings.filterwarnings("ignore")
import logging; logging.disable(logging.CRITICAL)
from evoverif import runner, symcore as sc
prop, name = sys.argv[1], sys.argv[2]
tier = sys.argv[3] if len(sys.argv) > 3 else "quick"
slow = float(sys.argv[4]) if len(sys.argv) > 4 else 1.0
h = importlib.import_module("harness." + prop.lower())
h.worker_init()
orig = sc.Ctx.solve
def solve(self, extra, kind="goal", **k):
    t = time.time(); r = orig(self, extra, kind=kind, **k); dt = time.time() - t
    if dt > slow:
        print("SLOW %s %.1fs -> %s full=%s nextra=%d %s" % (kind, dt, r[0], k.get("full"), len(extra), extra[0].sexpr()[:3000] if os.environ.get("DBG_FULL") else str(extra[0])[:200].replace("\n", " ") if extra else ""))
    return r
sc.Ctx.solve = solve
cs = [c for c in h.cases(tier, 0) if c["name"] == name][0]
col = runner.Collector(name)
t0 = time.time()
try:
    h.run_case(cs, col)
except Exception:
    import traceback; traceback.print_exc()
d = col.d
for k in ("violations", "known_hits", "harness_errors", "inconclusive"):
    for e in d[k][:5]:
        print(k.upper(), {a: (str(b)[:500]) for a, b in e.items()})
print({k: d[k] for k in ("paths", "outcomes", "obligations", "discharged", "queries", "solver_s")}, "%.1fs" % (time.time() - t0))
