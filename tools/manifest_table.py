FIX_COMMITS = ["1dd3dce (C05 pose used twice)"]
CHECKS = [
 dict(property_id="C05",
      text="Bounded SMT decision: sync.matching_time_indices / associate_trajectories are executed on symbolic strictly increasing stamp vectors, symbolic max_diff >= 0 and offset for every length pair in the bound; per feasible path z3 (linear real arithmetic, exact at ties and at |dt| == max_diff) shows every clause of the property unsat-negated. Holds for every real-valued input within the length bound; lengths beyond it and float rounding are outside.",
      note="trusted: z3; the numpy facade (validated against numpy by the conformance run); real-number semantics of floats; replay oracle is an independent exact-rational implementation of the clauses"),
]
_PENDING = "check not built yet in this round (machinery under construction; see DESIGN.md section 10)"
NOT_APPLICABLE = [dict(property_id="C%02d" % i, reason=_PENDING) for i in range(1, 21) if "C%02d" % i not in {c["property_id"] for c in CHECKS}]
