FIX_COMMITS = ["1dd3dce (C05 pose used twice)"]
CHECKS = [
 dict(property_id="C05",
      text="Bounded SMT decision: sync.matching_time_indices / associate_trajectories are executed on symbolic strictly increasing stamp vectors, symbolic max_diff >= 0 and offset for every length pair in the bound; per feasible path z3 (linear real arithmetic, exact at ties and at |dt| == max_diff) shows every clause of the property unsat-negated. Holds for every real-valued input within the length bound; lengths beyond it and float rounding are outside.",
      note="trusted: z3; the numpy facade (validated against numpy by the conformance run); real-number semantics of floats; replay oracle is an independent exact-rational implementation of the clauses"),
 dict(property_id="C12",
      text="Bounded SMT decision: PE.get_statistic/get_all_statistics/get_result run on symbolic error vectors (also after unit-change / re-assignment histories) and every statistic is shown equal to its definition written independently in z3 (rank-based median, radicand-based rmse/std), plus the stated inequalities and rmse^2 = mean^2 + std^2; change_unit is run for all 100 ordered unit pairs (exact factor or refusal with values untouched); main_ape.ape and main_rpe.rpe run on symbolic stamped trajectories (frame deltas and symbolic metric deltas, consecutive and all-pairs, ratio relation with zero reference distances) and companion arrays, stored trajectories, title and label are shown to refer to the poses the values belong to.",
      note="trusted: z3 (QF_NRA), facade, real-number semantics; rad/deg factor is the rational 180/pi_double; pair selection itself is owned by C10"),
]
_PENDING = "check not built yet in this round (machinery under construction; see DESIGN.md section 10)"
NOT_APPLICABLE = [dict(property_id="C%02d" % i, reason=_PENDING) for i in range(1, 21) if "C%02d" % i not in {c["property_id"] for c in CHECKS}]
