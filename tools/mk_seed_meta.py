#!/usr/bin/env python3
"""Writes seeded/<id>/meta.json from description.txt, confirm.txt (tools/confirm_seed.sh) and detection.txt
(tools/run_seed.sh), and prints the markdown table used in DESIGN.md 11.3."""
import json
import os
import re
import sys

HERE = os.path.dirname(os.path.dirname(os.path.abspath(__file__)))
SEEDS = os.path.join(HERE, "seeded")
REBASED = {"C02b": "context moved by the C16 fix (3a127e2)", "C05b": "rewritten onto the C05 fix (1dd3dce)",
           "C14b": "rewritten onto the C16 fix (3a127e2): the early `continue` keeps the pose in the new list",
           "C16b": "rewritten onto the C05 fix (1dd3dce)", "C18b": "rewritten onto the C18 fix (35c15b3)",
           "C19a": "rewritten onto the C19 fix (080f984)", "C19b": "rewritten onto the C19 fix (080f984)",
           "C15b": "rewritten onto the C15 fix (23b5ba4)"}
ROUND2 = {"C16a", "C16c"} | {p + v for p in ("C01", "C04", "C08", "C11", "C12", "C15", "C17", "C19") for v in "cd"}
ROUND3 = {p + v for p in ("C02", "C03", "C05", "C06", "C07", "C09", "C10", "C13", "C14", "C18", "C20") for v in "cd"}
NOTES = {
    "C03b": "correct over the reals, wrong only through binary64 rounding: invisible in real mode (DESIGN 11.3)",
    "C08b": "correct over the reals, wrong only through binary64 rounding: invisible in real mode (DESIGN 11.3)",
    "C11b": "correct over the reals, wrong only through binary64 rounding: invisible in real mode (DESIGN 11.3)",
    "C01c": "correct over the reals (the cosine never leaves [-1, 1] in exact arithmetic), NaN only through binary64 rounding: invisible in real mode (DESIGN 11.3)",
    "C12d": "the one-pass variance equals the two-pass one over the reals (cancellation is a rounding effect): the intended defect is invisible in real mode; "
            "what C12 reports is a side effect of the same edit (ZeroDivisionError instead of nan for an empty error array)",
    "C09a": "found after 28 min: the half-turn case is a division-by-zero (poison) path and angles beyond pi near it; every other "
            "obligation first runs into its time-out",
    "C04d": "first examined with no verdict within 60 min; reported in 10 s since the wiring cases with Umeyama replaced by its contract were added (DESIGN 11.3)",
    "C05c": "first run: exit 3 (the solver's witness sits exactly on max_diff and the replay oracle had a don't-care band there); reported since the "
            "oracle decides boundary cases exactly when the witness's float arithmetic is exact",
    "C06c": "first run: exit 0 (not seen: no case read a path twice); reported since the write / read / rewrite / read cases on one path were added",
    "C06d": "not seen: pandas runs for real on object cells, so a branch on the index dtype / on index values inside pandas is never taken symbolically (DESIGN 11.3)",
    "C07c": "first run: exit 2 (numpy.fromiter not modelled), then exit 0 (no case had compensating defects in two rows); reported since both were added",
    "C14c": "C14 itself is inconclusive on this change (Euler-angle code on a symbolic quaternion: not encodable); the stale matrix view is reported by C08",
    "C09d": "not seen by the run recorded here (so3_log(R, return_skew=True) was not exercised); the clause 'the skew form is hat() of the rotation vector and has the "
            "rotation angle as magnitude' was added afterwards; a run of the quick check with that clause against this change was stopped after 400 s without a verdict (exit 124 of timeout: not a pass, not a report)",
    "C02d": "the pair selection is owned by C10 (id_pairs_from_delta), which reports it; C02 takes the selected pairs as given",
    "C10a": "the solver finds a counterexample sitting exactly on a threshold; it does not reproduce in binary64: exit 3, no VIOLATION line",
}


def needs(desc):
    m = re.search(r"(Need(?:s|ed)[^\n]*(?:\n(?![A-Z][a-z]+ ?[a-z]*:|Tests|Why|Demo)[^\n]+)*)", desc)
    return re.sub(r"\s+", " ", m.group(1)).strip() if m else re.sub(r"\s+", " ", desc)[:600]


rows = []
for sid in sorted(os.listdir(SEEDS)):
    d = os.path.join(SEEDS, sid)
    if not os.path.isdir(d):
        continue
    desc = open(os.path.join(d, "description.txt")).read()
    conf = open(os.path.join(d, "confirm.txt")).read().strip() if os.path.exists(os.path.join(d, "confirm.txt")) else ""
    m = re.search(r"clean_demo=(\d+) patched_demo=(\d+) tests=(\d+)passed/(\d+)failed -> (\w+)(.*)", conf)
    runs = []
    if os.path.exists(os.path.join(d, "detection.txt")):
        for line in open(os.path.join(d, "detection.txt")):
            r = re.match(r"(\S+) check=(\S+) tier=(\S+) mode=(\S+) exit=(\d+) violations=(\d+) wall=(\d+)s :: ?(.*)", line.strip())
            if r:
                runs.append(dict(check=r.group(2), tier=r.group(3), mode=r.group(4), exit=int(r.group(5)),
                                 violation_lines=int(r.group(6)), wall_s=int(r.group(7)), first_report=r.group(8).strip()[:240]))
    detected = sorted({r["check"] for r in runs if r["exit"] == 1 and r["violation_lines"] > 0})
    meta = {
        "id": sid, "property": sid[:3],
        "origin": "fresh sub-agent that was given only the text of property %s and its own scratch worktree of the repository (%s)" % (
            sid[:3], "second round, at /repo HEAD 23b5ba4" if sid in ROUND2 else "third round, at /repo HEAD 23b5ba4" if sid in ROUND3 else "first round, at the pinned commit aed3ce0"),
        "patch_applies_to": "/repo HEAD 23b5ba4 with `git -C /repo apply seeded/%s/patch.diff`" % sid,
        "rebased": REBASED.get(sid),
        "breaks": re.sub(r"\s+", " ", desc)[:700],
        "needs_to_manifest": needs(desc),
        "confirmed_by_me": None if not m else {
            "how": "tools/confirm_seed.sh seeded/%s (scratch worktree of /repo HEAD under /tmp, removed afterwards)" % sid,
            "demo_exit_without_change": int(m.group(1)), "demo_exit_with_change": int(m.group(2)),
            "pinned_tests_with_change": "%s passed, %s failed (the one failure is the bag test that fails on the pinned commit too)" % (m.group(3), m.group(4)),
            "verdict": m.group(5), "note": m.group(6).strip() or None},
        "checks_run": [dict(r, how="tools/run_seed.sh seeded/%s %s%s" % (sid, "--worktree " if r["mode"] == "worktree" else "", r["check"]))
                       for r in runs],
        "detected_by": detected,
        "note": NOTES.get(sid),
    }
    with open(os.path.join(d, "meta.json"), "w") as f:
        json.dump(meta, f, indent=1)
    outcome = []
    for r in runs:
        v = {0: "exit 0 (not seen)", 1: "**VIOLATION**", 2: "exit 2 (inconclusive)", 3: "exit 3 (harness error)", 124: "no verdict within the time cap"}.get(r["exit"], "exit %d" % r["exit"])
        if r["exit"] == 1 and not r["violation_lines"]:
            v = "exit 1"
        outcome.append("%s: %s (%d s)" % (r["check"], v, r["wall_s"]))
    first = re.sub(r"\s+", " ", desc.strip().split("\n")[0])[:150].replace("|", "/")
    rows.append("| %s | %s | %s | %s |" % (sid, first, "; ".join(outcome) or "not run", (NOTES.get(sid) or "").split(":")[0][:90]))
print("| seed | change (first line of the sub-agent's description) | checks run (quick tier) | note |")
print("|---|---|---|---|")
print("\n".join(rows))
n_det = sum(1 for sid in os.listdir(SEEDS) if os.path.isdir(os.path.join(SEEDS, sid)) and json.load(open(os.path.join(SEEDS, sid, "meta.json")))["detected_by"])
print("\n%d of %d seeded changes are reported as VIOLATION by at least one registered quick check." % (n_det, len(rows)))
