#!/bin/bash
# Runs registered checks against a seeded change (never committed anywhere).
#   default:      applies seeded/<id>/patch.diff to /repo's working tree, runs the checks, reverts (git checkout -- .)
#   --worktree:   applies it in a scratch worktree of /repo's HEAD outside /repo and /verif and points the checks at
#                 it (--repo); /repo stays untouched, so several seeds can be examined while other work goes on
# Evidence and replay files of these runs are redirected away from /verif (EVOVERIF_OUT).
# usage: tools/run_seed.sh seeded/<id> [--worktree] [--tier quick|thorough] C05 C16 ...
set -u
d=$(cd "$1" && pwd); shift
mode=inplace; tier=quick
while true; do case "${1:-}" in --worktree) mode=worktree; shift;; --tier) tier=$2; shift 2;; *) break;; esac; done
out=$(mktemp -d /tmp/seedrun.XXXXXX)
if [ $mode = inplace ]; then
  if [ -n "$(git -C /repo status --porcelain)" ]; then echo "/repo is not clean"; exit 3; fi
  repo=/repo
  revert() { git -C /repo apply -R "$d/patch.diff" 2>/dev/null; git -C /repo checkout -- . ; rm -rf "$out"; }
else
  repo=$out/wt
  git -C /repo worktree add -q --detach "$repo" HEAD || exit 3
  revert() { git -C /repo worktree remove --force "$repo" >/dev/null 2>&1; rm -rf "$out"; }
fi
trap revert EXIT
git -C $repo apply "$d/patch.diff" || exit 3
for id in "$@"; do
  s=$(date +%s)
  EVOVERIF_OUT=$out timeout ${SEED_TIMEOUT:-3600} /verif/check $id --tier $tier --repo $repo > $out/$id.log 2>&1
  rc=$?
  [ $rc = 124 ] && pkill -f "evoverif.runne[r] $id --tier $tier --repo $repo"
  nv=$(grep -c '^VIOLATION' $out/$id.log)
  first=$(grep -m1 '^  -> ' $out/$id.log | cut -c1-260)
  [ -z "$first" ] && first=$(grep -m1 'INCONCLUSIVE\|HARNESS-ERROR' $out/$id.log | cut -c1-260)
  echo "$(basename $d) check=$id tier=$tier mode=$mode exit=$rc violations=$nv wall=$(( $(date +%s) - s ))s :: $first"
done
