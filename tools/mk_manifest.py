#!/usr/bin/env python3
"""Regenerates /verif/MANIFEST.json from the table below (kept valid at all times)."""
import json, os, sys
HERE = os.path.dirname(os.path.dirname(os.path.abspath(__file__)))
sys.path.insert(0, HERE)
from tools.manifest_table import CHECKS, NOT_APPLICABLE, FIX_COMMITS  # noqa

TECH = "bounded symbolic execution of the real evo functions on a symbolic numpy facade + z3 (SMT) per path obligation; counterexamples replayed on real numpy"
m = dict(
    version=1,
    setup_cmd="./setup.sh",
    hooks=dict(guard="EVO_VERIF", enable="none needed: no hook was added to /repo; checks load /repo's sources directly (EVO_VERIF is reserved and unused)",
               baseline_off_cmd="cd /repo && /venv/bin/python -m pytest -ra -q -p no:cacheprovider --timeout=900 --continue-on-collection-errors",
               source_commits=[], add_only=True),
    engines=[dict(name="evoverif", path="evoverif/", serves_properties=[c["property_id"] for c in CHECKS],
                  kind_free_text="symbolic executor for Python/numpy code (path exploration by re-execution, z3 back end), contract stubs, replay on the real code")],
    checks=[], not_applicable=NOT_APPLICABLE,
    notes="fix: commits in /repo (genuine defects repaired): " + ", ".join(FIX_COMMITS) + ". Exit codes of ./check: 0 holds, 1 violation (replayed), 2 inconclusive, 3 harness error.")
for c in CHECKS:
    pid = c["property_id"]
    m["checks"].append(dict(
        property_id=pid, quick_cmd="./check %s --tier quick" % pid, thorough_cmd="./check %s --tier thorough" % pid,
        evidence_file="evidence/%s.json" % pid, replay_cmd_template="./check %s --replay {path}" % pid,
        engine="evoverif",
        level_claimed=dict(category=c.get("category", "other"), text=c["text"], design_ref=c.get("design_ref", "DESIGN.md section 5, " + pid)),
        level_note=c["note"], technique=c.get("technique", TECH)))
json.dump(m, open(os.path.join(HERE, "MANIFEST.json"), "w"), indent=1)
import jsonschema
jsonschema.validate(m, json.load(open("/root/.vp/MANIFEST.schema.json")))
print("MANIFEST.json written:", len(m["checks"]), "checks,", len(NOT_APPLICABLE), "not applicable")
