#!/bin/bash
# Confirms a seeded change in a scratch worktree of /repo's HEAD (never in /repo itself):
#   demo passes without the change, fails with it, and the pinned test suite still passes with it.
# usage: tools/confirm_seed.sh <seed-dir containing patch.diff and demo.py>
# prints one line: <dir> clean_demo=<rc> patched_demo=<rc> tests=<passed>/<failed> -> CONFIRMED|REJECTED
set -u
d=$(cd "$1" && pwd)
wt=$(mktemp -d /tmp/seedwt.XXXXXX)
rmdir "$wt"
git -C /repo worktree add -q --detach "$wt" HEAD || exit 3
cleanup() { git -C /repo worktree remove --force "$wt" >/dev/null 2>&1; rm -rf "$wt" "$wt.home"; }
trap cleanup EXIT
mkdir -p "$wt.home"
run_demo() { (cd "$wt" && HOME="$wt.home" MPLBACKEND=Agg PYTHONPATH="$wt" timeout 600 /venv/bin/python "$d/demo.py" >"$wt.home/demo.out" 2>&1); echo $?; }
c=$(run_demo)
if ! git -C "$wt" apply "$d/patch.diff"; then echo "$d patch does not apply -> REJECTED"; exit 1; fi
p=$(run_demo)
tail -3 "$wt.home/demo.out" | cut -c1-300 > "$d/demo_output_with_change.txt"
t=$(cd "$wt" && HOME="$wt.home" PYTHONPATH="$wt" /venv/bin/python -m pytest -q -p no:cacheprovider --timeout=900 --continue-on-collection-errors 2>&1 | tail -1)
passed=$(echo "$t" | grep -o '[0-9]* passed' | grep -o '[0-9]*'); failed=$(echo "$t" | grep -o '[0-9]* failed' | grep -o '[0-9]*')
v=REJECTED
if [ "$c" = 0 ] && [ "$p" != 0 ] && [ "${passed:-0}" -ge 82 ] && [ "${failed:-0}" -le 1 ]; then v=CONFIRMED; fi
echo "$d clean_demo=$c patched_demo=$p tests=${passed:-0}passed/${failed:-0}failed -> $v"
[ $v = CONFIRMED ]
