"""C17 -- existing output files are never overwritten without confirmation.

The data are concrete, the *environment* is symbolic: whether the target exists, the string typed at the
prompt (a z3 String; evo only compares it with 'y'), whether warnings / confirmation are on, and whether the
path is a str or a pathlib.Path are decisions of the explorer.  evo's real (unmodified, numpy-backed) modules
run; `input` inside evo.tools.user is the model's.  File effects are observed in a scratch directory.
"""
import argparse
import io
import os
import shutil
import sys
import tempfile
from pathlib import Path

import numpy as rnp
import z3

from evoverif import runner, symcore as sc
from . import common

PROPERTY = "C17"
FUNCTIONS = ["evo.tools.user.check_and_confirm_overwrite", "user.confirm", "file_interface.write_tum_trajectory_file",
             "write_kitti_poses_file", "save_res_file", "pandas_bridge.save_df_as_table", "plot.PlotCollection.export (pdf / per-figure)",
             "PlotCollection.serialize", "main_ape.run", "main_rpe.run", "main_traj.run", "main_res.run", "main_config.main (generate -o)",
             "common_ape_rpe.plot_result"]
BOUNDS = {"quick": "one output option at a time; target exists or not; one symbolic answer string per prompt; warnings on/off; str / pathlib.Path",
          "thorough": "additionally all output options of a command together (<= 3 prompts)"}
STUBS = ["builtins.input inside evo.tools.user: returns the symbolic answer and records the prompt"]
ASSUMPTIONS = ["the scratch directory is private to the run"]
OUTSIDE = ["bag export (no confirmation exists and it is not in the property's list)", "--logfile", "evo_fig", "html export"]
SENTINEL = b"SENTINEL-existing-file-content\n"


def worker_init():
    os.environ.setdefault("MPLBACKEND", "Agg")
    import matplotlib
    matplotlib.use("Agg")
    common.ensure_loaded()


class SymStr:
    """the string typed at a prompt (a z3 String), and strings derived from it by strip() / lower()"""
    WS = " \t\n\r\x0b\x0c"

    def __init__(self, z, root=None):
        self.z = z
        self.root = root if root is not None else self
        self.on_compare = None

    def _told(self, r):
        if self.root.on_compare:
            self.root.on_compare(r)
        return r

    def __eq__(self, o):
        if isinstance(o, str):
            return self._told(bool(sc.SymBool(self.z == z3.StringVal(o))))
        return NotImplemented

    def __ne__(self, o):
        if isinstance(o, str):
            return not self._told(bool(sc.SymBool(self.z == z3.StringVal(o))))
        return NotImplemented
    __hash__ = None

    def __str__(self):
        return "<answer>"

    def strip(self, chars=None):
        """r with  s = p ++ r ++ q,  p and q whitespace only,  r neither starting nor ending with whitespace"""
        if chars is not None:
            raise sc.NotEncodable("answer.strip(chars)")
        c = sc.ctx()
        r, p, q = (z3.String("%s!%s%d" % (self.z.decl().name() if z3.is_const(self.z) else "str", k, len(c.axioms))) for k in ("strip", "pre", "post"))
        ws = z3.Union(*[z3.Re(ch) for ch in self.WS])
        nows = z3.Complement(z3.Concat(z3.Concat(z3.Full(z3.ReSort(z3.StringSort())), ws), z3.Full(z3.ReSort(z3.StringSort()))))
        edge_ok = z3.Or(z3.Length(r) == 0,
                        z3.And(z3.InRe(z3.SubString(r, 0, 1), nows), z3.InRe(z3.SubString(r, z3.Length(r) - 1, 1), nows)))
        c.axiom(r, z3.And(self.z == z3.Concat(p, r, q), z3.InRe(p, z3.Star(ws)), z3.InRe(q, z3.Star(ws)), edge_ok))
        return SymStr(r, self.root)

    def lower(self):
        """ASCII lower-casing, character by character; bound: strings of at most 3 characters (longer answers are
        outside the claim on paths that call lower())"""
        c = sc.ctx()
        r = z3.String("%s!lower%d" % (self.z.decl().name() if z3.is_const(self.z) else "str", len(c.axioms)))
        cons = [z3.Length(self.z) <= 3, z3.Length(r) == z3.Length(self.z)]
        for i in range(3):
            a, b = z3.StrToCode(z3.SubString(self.z, i, 1)), z3.StrToCode(z3.SubString(r, i, 1))
            cons.append(z3.Implies(z3.Length(self.z) > i, b == z3.If(z3.And(a >= 65, a <= 90), a + 32, a)))
        c.axiom(r, z3.And(cons))
        return SymStr(r, self.root)


WRITERS = ["tum", "kitti", "res", "table", "plot_pdf", "plot_png", "plot_png_two_figures_second_exists", "serialize"]
CLI = [("ape", "save_results"), ("ape", "save_plot_pdf"), ("ape", "save_plot_png"), ("ape", "serialize_plot"),
       ("rpe", "save_results"), ("rpe", "save_plot_pdf"), ("rpe", "serialize_plot"),
       ("traj", "save_as_tum"), ("traj", "save_as_kitti"), ("traj", "save_table"), ("traj", "save_plot_png"), ("traj", "serialize_plot"),
       ("res", "save_table"), ("res", "save_plot_pdf"), ("res", "serialize_plot"), ("config", "generate_out")]


def cases(tier, seed):
    out = [dict(name="writer_" + w, kind="writer", w=w) for w in WRITERS]
    out += [dict(name="cli_%s_%s" % c, kind="cli", cmd=c[0], opt=c[1]) for c in CLI]
    if tier != "quick":
        out += [dict(name="cli_ape_all_outputs", kind="cli", cmd="ape", opt="all"), dict(name="cli_traj_all_outputs", kind="cli", cmd="traj", opt="all")]
    return out


def run_case(case, col):
    run_scenario(case, col)


# --------------------------------------------------------------------------
def small_traj(n=4, shift=0.0):
    T = common.R("evo.core.trajectory")
    xyz = rnp.array([[i * 1.0 + shift, 0.1 * i * i, 0.05 * i] for i in range(n)])
    quat = rnp.array([[1.0, 0, 0, 0]] * n)
    return T.PoseTrajectory3D(xyz, quat, rnp.arange(n) * 0.1 + 100.0)


def write_inputs(d):
    FI = common.R("evo.tools.file_interface")
    FI.write_tum_trajectory_file(os.path.join(d, "ref.tum"), small_traj(5))
    FI.write_tum_trajectory_file(os.path.join(d, "est.tum"), small_traj(5, 0.02))
    M, MA = common.R("evo.core.metrics"), common.R("evo.main_ape")
    for k in range(2):
        r = MA.ape(small_traj(5), small_traj(5, 0.02 * (k + 1)), M.PoseRelation.translation_part, ref_name="ref", est_name="est%d" % k)
        FI.save_res_file(os.path.join(d, "in%d.zip" % k), r)


def figure_collection(nfig=1):
    import matplotlib.pyplot as plt
    P = common.R("evo.tools.plot")
    pc = P.PlotCollection("t")
    for k in range(nfig):
        fig = plt.figure()
        fig.gca().plot([0, 1], [k, 1])
        pc.add_figure("fig%d" % k, fig)
    return pc


def ns(parser_mod, argv):
    return common.R(parser_mod).parser().parse_args(argv)


def build(case, d, as_path, confirm):
    """returns (callable performing the evo operation, list of target file names (relative to d) that the operation
    writes, list of targets that pre-exist when `exists`)"""
    FI, PB = common.R("evo.tools.file_interface"), common.R("evo.tools.pandas_bridge")
    mk = (lambda p: Path(p)) if as_path else (lambda p: p)
    if case["kind"] == "writer":
        w = case["w"]
        if w == "tum":
            return (lambda: FI.write_tum_trajectory_file(mk(os.path.join(d, "o.tum")), small_traj(), confirm)), ["o.tum"], ["o.tum"]
        if w == "kitti":
            return (lambda: FI.write_kitti_poses_file(mk(os.path.join(d, "o.kitti")), small_traj(), confirm)), ["o.kitti"], ["o.kitti"]
        if w == "res":
            def f():
                M, MA = common.R("evo.core.metrics"), common.R("evo.main_ape")
                r = MA.ape(small_traj(), small_traj(4, 0.1), M.PoseRelation.translation_part)
                FI.save_res_file(mk(os.path.join(d, "o.zip")), r, confirm)
            return f, ["o.zip"], ["o.zip"]
        if w == "table":
            def f():
                import pandas as pd
                PB.save_df_as_table(pd.DataFrame({"a": [1.0, 2.0]}), mk(os.path.join(d, "o.csv")), confirm_overwrite=confirm)
            return f, ["o.csv"], ["o.csv"]
        if w == "plot_pdf":
            return (lambda: _export(figure_collection(2), os.path.join(d, "o.pdf"), confirm)), ["o.pdf"], ["o.pdf"]
        if w == "plot_png":
            return (lambda: _export(figure_collection(1), os.path.join(d, "o.png"), confirm)), ["o_fig0.png"], ["o_fig0.png"]
        if w == "plot_png_two_figures_second_exists":
            return (lambda: _export(figure_collection(2), os.path.join(d, "o.png"), confirm)), ["o_fig0.png", "o_fig1.png"], ["o_fig1.png"]
        if w == "serialize":
            def f():
                pc = figure_collection(1)
                try:
                    pc.serialize(os.path.join(d, "o.pickle"), confirm_overwrite=confirm)
                finally:
                    pc.close()
            return f, ["o.pickle"], ["o.pickle"]
    cmd, opt = case["cmd"], case["opt"]
    nw = [] if confirm else ["--no_warnings"]
    if cmd in ("ape", "rpe"):
        outs = {"save_results": (["--save_results", "o.zip"], ["o.zip"]), "save_plot_pdf": (["--save_plot", "o.pdf"], ["o.pdf"]),
                "save_plot_png": (["--save_plot", "o.png"], ["o_raw.png", "o_map.png"]), "serialize_plot": (["--serialize_plot", "o.pickle"], ["o.pickle"])}
        if opt == "all":
            argv = ["--save_results", "o.zip", "--save_plot", "o.pdf", "--serialize_plot", "o.pickle"]
            targets = ["o.zip", "o.pdf", "o.pickle"]
        else:
            argv, targets = outs[opt]
        a = ns("evo.main_%s_parser" % cmd, ["tum", "ref.tum", "est.tum", "--silent"] + argv + nw)
        return (lambda: common.R("evo.main_" + cmd).run(a)), targets, targets
    if cmd == "traj":
        outs = {"save_as_tum": (["--save_as_tum"], ["est.tum"]), "save_as_kitti": (["--save_as_kitti"], ["est.kitti"]),
                "save_table": (["--save_table", "o.csv"], ["o.csv"]), "save_plot_png": (["--save_plot", "o.png"], None),
                "serialize_plot": (["--serialize_plot", "o.pickle"], ["o.pickle"])}
        if opt == "all":
            argv, targets = ["--save_as_kitti", "--save_table", "o.csv", "--serialize_plot", "o.pickle"], ["est.kitti", "o.csv", "o.pickle"]
        else:
            argv, targets = outs[opt]
        src = "in/est.tum"
        a = ns("evo.main_traj_parser", ["tum", src, "--silent"] + argv + nw)
        return (lambda: common.R("evo.main_traj").run(a)), targets, targets
    if cmd == "res":
        outs = {"save_table": (["--save_table", "o.csv"], ["o.csv"]), "save_plot_pdf": (["--save_plot", "o.pdf"], ["o.pdf"]),
                "serialize_plot": (["--serialize_plot", "o.pickle"], ["o.pickle"])}
        argv, targets = outs[opt]
        a = ns("evo.main_res_parser", ["in0.zip", "in1.zip", "--silent", "--ignore_title"] + argv + nw)
        return (lambda: common.R("evo.main_res").run(a)), targets, targets
    if cmd == "config":
        def f():
            MC = common.R("evo.main_config")
            old = sys.argv
            sys.argv = ["evo_config", "generate", "--out", "o.json", "--pose_relation", "angle_deg", "--plot"]
            try:
                MC.main()
            finally:
                sys.argv = old
        return f, ["o.json"], ["o.json"]


def _export(pc, path, confirm):
    try:
        pc.export(path, confirm_overwrite=confirm)
    finally:
        pc.close()


def execute(case, exists, confirm, as_path, answer_fn):
    """runs the scenario in a fresh scratch dir; returns observations"""
    user = common.R("evo.tools.user")
    d = tempfile.mkdtemp(prefix="evoverif_c17_", dir=os.environ.get("TMPDIR", "/tmp"))
    cwd = os.getcwd()
    prompts = []
    try:
        write_inputs(d)
        os.makedirs(os.path.join(d, "in"))
        shutil.copy(os.path.join(d, "est.tum"), os.path.join(d, "in", "est.tum"))
        if case.get("cmd") == "traj":
            os.remove(os.path.join(d, "est.tum"))      # evo_traj exports into the working directory under the input's name
        os.chdir(d)
        op, targets, pre = build(case, d, as_path, confirm)
        if targets is None:            # evo_traj per-figure plot export: discover names with a dry run
            op0, _, _ = build(case, d, as_path, False)
            before0 = set(os.listdir(d))
            op0()
            targets = sorted(set(os.listdir(d)) - before0)
            for t in targets:
                os.remove(os.path.join(d, t))
            pre = targets[-1:]
        if exists:
            for t in pre:
                with open(os.path.join(d, t), "wb") as f:
                    f.write(SENTINEL)
        before = {f: open(os.path.join(d, f), "rb").read() for f in os.listdir(d) if os.path.isfile(os.path.join(d, f))}

        current = []
        orig_check = user.check_and_confirm_overwrite

        def recording_check(file_path):
            current.append(file_path)
            try:
                return orig_check(file_path)
            finally:
                current.pop()

        def sym_input(msg=""):
            ans = answer_fn(len(prompts))
            rec = [current[-1] if current else "<prompt without a path>", None]
            prompts.append(rec)
            if hasattr(ans, "on_compare"):
                ans.on_compare = lambda yes, rec=rec: rec.__setitem__(1, yes)
            else:
                rec[1] = (ans == "y")
            return ans
        user.input = sym_input
        user.check_and_confirm_overwrite = recording_check
        try:
            op()
        except SystemExit:
            pass
        finally:
            user.check_and_confirm_overwrite = orig_check
            try:
                del user.input
            except AttributeError:
                pass
        after = {f: open(os.path.join(d, f), "rb").read() for f in os.listdir(d) if os.path.isfile(os.path.join(d, f))}
        return dict(prompts=[(p, bool(y)) for p, y in prompts], before=before, after=after, targets=targets, pre=pre if exists else [])
    finally:
        os.chdir(cwd)
        shutil.rmtree(d, ignore_errors=True)
        import matplotlib.pyplot as plt
        plt.close("all")


def judge(obs, confirm):
    """obs['prompts']: list of (path asked about, answered exactly 'y').  returns list of problems"""
    bad = []
    pre = obs["pre"]
    asked = {}
    for path, yes in obs["prompts"]:
        asked.setdefault(os.path.basename(str(path)), []).append(yes)
    for t in obs["targets"]:
        b, a = obs["before"].get(t), obs["after"].get(t)
        if t in pre:
            if confirm:
                ans = asked.get(t)
                if ans is None:
                    # never asked (evo stopped after an earlier decline): then it must be untouched
                    if a != b:
                        bad.append("existing %s was modified without asking" % t)
                elif all(ans):
                    if a == b:
                        bad.append("existing %s was not replaced although the answer was 'y'" % t)
                else:
                    if a != b:
                        bad.append("existing %s was modified although the answer was not 'y'" % t)
            else:
                if a == b:
                    bad.append("existing %s was not replaced although warnings are disabled" % t)
        elif not pre and t not in obs["after"]:
            bad.append("output %s was not written" % t)
    new = [f for f in obs["after"] if f not in obs["before"] and f not in obs["targets"]]
    if new:
        bad.append("unexpected new files %r" % (new,))
    for path, yes in obs["prompts"]:
        if os.path.basename(str(path)) not in pre:
            bad.append("a prompt was issued for %s which did not exist" % path)
    if not confirm and obs["prompts"]:
        bad.append("a prompt was issued although warnings are disabled")
    if confirm and pre and not obs["prompts"]:
        bad.append("existing target %r but no confirmation was asked" % (pre,))
    return bad


def run_scenario(case, col):
    has_nw = not (case["kind"] == "cli" and case["cmd"] == "config")
    inputs = {"answer_%d" % k: z3.String("answer_%d" % k) for k in range(3)}
    inputs.update(exists=z3.Int("exists!c0"), confirm=z3.Int("confirm!c1"), as_path=z3.Int("as_path!c2"))
    state = {}

    Tracked = SymStr

    def fn():
        c = sc.ctx()
        exists = c.choose(2, "exists") == 1
        confirm = (c.choose(2, "confirm") == 1) if has_nw else True
        as_path = (c.choose(2, "as_path") == 1) if case["kind"] == "writer" and case["w"] in ("tum", "kitti", "res", "table") else False
        obs = execute(case, exists, confirm, as_path, lambda k: Tracked(z3.String("answer_%d" % k)))
        return obs, exists, confirm, as_path

    def on_ok(pr):
        obs, exists, confirm, as_path = pr.out
        bad = judge(obs, confirm)

        def replay(vals):
            answers = []
            for k in range(3):
                a = vals.get("answer_%d" % k, "")
                a = a if isinstance(a, str) else ""
                if len(a) >= 2 and a[0] == '"' and a[-1] == '"':
                    a = a[1:-1]
                answers.append(a)
            obs2 = execute(case, exists, confirm, as_path, lambda k: answers[k] if k < len(answers) else "")
            bad2 = judge(obs2, confirm)
            return bool(bad2), "; ".join(bad2) or "ok (answers %r)" % (answers,)
        g = {"no_overwrite_without_confirmation_and_replacement_when_allowed": z3.BoolVal(not bad)}
        # an answer that evo accepted as confirmation was exactly 'y' (matters when the code compares a derived string)
        acc = [k for k, (p_, yes) in enumerate(obs["prompts"]) if yes]
        if acc:
            g["accepted_answers_are_exactly_y"] = z3.And([z3.String("answer_%d" % k) == z3.StringVal("y") for k in acc])
        runner.check_obligations(col, pr.ctx, g, inputs, replay, descr="%s exists=%s warnings_on=%s pathlib=%s prompts=%r -> %s" % (
            case["name"], exists, confirm, as_path, [(os.path.basename(str(p)), y) for p, y in obs["prompts"]], "; ".join(bad) or "ok"))

    def on_exc(pr):
        col.d["harness_errors"].append(dict(ob="path", why="unexpected %s: %s" % (pr.status, pr.exc)))
    runner.explore_case(col, fn, [], on_ok, on_exc, max_paths=200)


def replay_file(rec):
    return False, "re-run ./check C17"
