"""C15 -- evo_traj applies its options in the documented order and exports the result.

evo.main_traj.run(args) is executed (facade-bound, from /repo) on input files with symbolic cells; the writers
are captured; the exported trajectories are compared with a *reference composition* built by the harness from
the core operations in the documented order (down-sampling, motion filtering, merging, time offset (not the
reference), association + Umeyama / origin alignment, left/right (inverted, propagated) transformation from
file, projection).  Core operations themselves are owned by C04/C05/C08/C11/C14 (ownership rule, DESIGN 5).
"""
import copy
import os
import shutil
import tempfile
from fractions import Fraction

import numpy as rnp
import z3

from evoverif import runner, symcore as sc, symnp, symrot, textcells, loader
from evoverif.symcore import SymReal, toz
from . import common
from .common import SymTraj, zR, zT, zmat_mul, zmat_vec
from .c01 import zpose, zinv

PROPERTY = "C15"
FUNCTIONS = ["evo.main_traj.run", "main_traj.load_trajectories", "to_filestem", "file_interface.read_tum_trajectory_file / read_kitti_poses_file",
             "load_transform", "lie_algebra.sim3_inverse", "PosePath3D.downsample / motion_filter / transform / project / align / align_origin",
             "trajectory.merge", "sync.associate_trajectories"]
BOUNDS = {"quick": "1..2 trajectories + optional reference, N = 2..3 poses each, a fixed list of 24 option sets covering every option and the "
                   "order-sensitive pairs", "thorough": "4 more option sets (down-sampling then motion filter, merge then time offset, origin alignment then "
                   "projection, inverted Sim(3) propagation) and 28 pairwise combinations of the processing options"}
STUBS = ["main_traj.print_traj_info has an empty body (log formatting)", "PosePath3D.align replaced by its contract as seen by the driver: an arbitrary symbolic similarity applied in the mode the flags "
         "select (align() itself is C04; Umeyama on the driver path did not finish in 20 min)", "text cells for the input files; writers captured (file I/O itself is C06/C07)", "SVD/eigh/sqrt/acos*/atan2 stubs"]
ASSUMPTIONS = ["valid input files"]
OUTSIDE = ["bag I/O", "plotting", "--save_table", "full_check printing", "the Umeyama computation inside evo_traj (stubbed by a symbolic similarity: the wiring of --align / --correct_scale is decided, "
           "align() itself is C04)", "--n_to_align other than the default", "--t_max_diff other than the default"]
MODS = ("evo.main_traj", "evo.tools.file_interface")


def worker_init():
    common.ensure_loaded(MODS)


OPTSETS = {
    "none_tum": dict(),
    "none_kitti": dict(fmt="kitti"),
    "downsample": dict(downsample=2, n=3),
    "downsample_ref": dict(downsample=2, n=3, ref=True),
    "motion_filter": dict(motion_filter=True, n=3),
    "merge": dict(merge=True, ntraj=2),
    "t_offset_sync": dict(t_offset=True, ref=True, sync=True),
    "t_offset_only": dict(t_offset=True, ref=True),
    "align_origin": dict(align_origin=True, ref=True),
    "transform_left": dict(transform="left"),
    "transform_right": dict(transform="right"),
    "transform_right_propagate": dict(transform="right", propagate=True),
    "transform_left_inverted_se3": dict(transform="left", invert=True),
    "transform_left_inverted_sim3": dict(transform="left", invert=True, sim3=True),
    "transform_right_inverted_json_sim3": dict(transform="right", invert=True, sim3=True, tf="json"),
    "transform_then_project": dict(transform="left", project="xy", n=1),
    "origin_then_transform": dict(align_origin=True, ref=True, transform="left"),
    "project_ref_too": dict(project="xy", ref=True, n=1),
    "two_trajectories_transform": dict(transform="left", invert=True, ntraj=2),
    "align_rigid": dict(align=True, ref=True, n=3, fmt="kitti"),
    "correct_scale_only": dict(correct_scale=True, ref=True, n=3, fmt="kitti"),
    "align_with_scale_then_transform": dict(align=True, correct_scale=True, ref=True, transform="right", n=3, fmt="kitti"),
    "correct_scale_then_align_origin": dict(correct_scale=True, align_origin=True, ref=True, n=3, fmt="kitti"),
    "correct_scale_then_align_origin_then_project": dict(correct_scale=True, align_origin=True, ref=True, project="xy", n=1, fmt="kitti"),
    "downsample_then_motion_filter": dict(downsample=2, motion_filter=True, n=3, thorough=True),
    "merge_then_t_offset": dict(merge=True, t_offset=True, ntraj=2, thorough=True),
    "origin_then_project": dict(align_origin=True, ref=True, project="xy", n=1, thorough=True),
    "transform_right_inverted_sim3_propagate": dict(transform="right", invert=True, sim3=True, propagate=True, thorough=True),
}

# thorough tier: pairwise combinations of the processing options (those that finished within a minute when tried)
_ATOMS = {"ds": dict(downsample=2, n=3), "to": dict(t_offset=True), "tl": dict(transform="left"), "tri": dict(transform="right", invert=True),
          "pr": dict(project="xy"), "ao": dict(align_origin=True, ref=True), "mg": dict(merge=True, ntraj=2), "mf": dict(motion_filter=True, n=3),
          "sy": dict(sync=True, ref=True)}
PAIRS = [('ds', 'to'), ('ds', 'tl'), ('ds', 'tri'), ('ds', 'pr'), ('ds', 'ao'), ('ds', 'mg'), ('ds', 'mf'), ('ds', 'sy'), ('to', 'tl'), ('to', 'tri'), ('to', 'pr'), ('to', 'ao'), ('to', 'mg'), ('to', 'mf'), ('to', 'sy'), ('tl', 'pr'), ('tl', 'ao'), ('tl', 'mg'), ('tl', 'mf'), ('tl', 'sy'), ('tri', 'pr'), ('tri', 'ao'), ('tri', 'mg'), ('tri', 'mf'), ('tri', 'sy'), ('pr', 'ao'), ('pr', 'mg'), ('pr', 'sy')]
for _a, _b in PAIRS:
    _d = dict(_ATOMS[_a])
    _d.update(_ATOMS[_b])
    if "project" in _d and "downsample" not in _d and "motion_filter" not in _d:
        _d["n"] = 1
    if "transform" in _ATOMS[_a] and "transform" in _ATOMS[_b]:
        continue
    _d["thorough"] = True
    OPTSETS["pair_%s_%s" % (_a, _b)] = _d


def cases(tier, seed):
    out = [dict(name="rotation_lemmas", kind="lemmas")]
    for k, v in OPTSETS.items():
        if v.get("thorough") and tier == "quick":
            continue
        out.append(dict(name="traj_" + k, kind="run", opts=k))
    return out


def run_case(case, col):
    if case["kind"] == "lemmas":
        from evoverif import lemmas
        return lemmas.lemma_case(col)
    run_run(case, col)


def S(n):
    return common.S(n)


def make_args(d, o, names, ref_name, tf_path):
    P = common.R("evo.main_traj_parser").parser()
    fmt = o.get("fmt", "tum")
    argv = [fmt] + names + ["--silent", "--no_warnings", "--save_as_" + fmt]
    if ref_name:
        argv += ["--ref", ref_name]
    if o.get("downsample"):
        argv += ["--downsample", str(o["downsample"])]
    if o.get("merge"):
        argv += ["--merge"]
    if o.get("sync"):
        argv += ["--sync"]
    if o.get("align_origin"):
        argv += ["--align_origin"]
    if o.get("align"):
        argv += ["--align"]
    if o.get("correct_scale"):
        argv += ["--correct_scale"]
    if o.get("transform"):
        argv += ["--transform_" + o["transform"], tf_path]
    if o.get("invert"):
        argv += ["--invert_transform"]
    if o.get("propagate"):
        argv += ["--propagate_transform"]
    if o.get("project"):
        argv += ["--project_to_plane", o["project"]]
    a = P.parse_args(argv)
    return a


def run_run(case, col):
    o = OPTSETS[case["opts"]]
    n = o.get("n", 2)
    ntraj = o.get("ntraj", 1)
    fmt = o.get("fmt", "tum")
    Ts = [SymTraj("t%d" % k, n, stamps=(fmt == "tum")) for k in range(ntraj)]
    Rf = SymTraj("ref", n, stamps=(fmt == "tum")) if o.get("ref") else None
    Tm = SymTraj("X", 1, stamps=False)
    AL = SymTraj("AL", 1, stamps=False)          # the (stubbed) alignment result
    zas = z3.Real("align_scale")
    zs = z3.Real("tf_scale")
    zoff, zd, za = z3.Real("t_offset"), z3.Real("mf_dist"), z3.Real("mf_angle")
    inputs = {}
    assume = []
    for t in Ts + ([Rf] if Rf else []) + [Tm, AL]:
        inputs.update(t.inputs())
        assume += t.assumptions()
    inputs.update(align_scale=zas)
    assume.append(zas > 0)
    inputs.update(tf_scale=zs, t_offset=zoff, mf_dist=zd, mf_angle=za)
    assume += [zs > 0, zoff != 0, zd >= 0, za >= 0, za <= 180]
    if not o.get("sim3"):
        assume.append(zs == 1)
    if o.get("merge"):
        assume += [Ts[0].t[i] != Ts[1].t[j] for i in range(n) for j in range(n)]
    extra_pin = [zs == (2 if o.get("sim3") else 1), zoff == sc.q_of(Fraction(1, 4)), zd == sc.q_of(Fraction(1, 2)), za == 10]
    extra_pin.append(zas == 3)
    pins = [p + extra_pin for p in common.pins_for(*(Ts + ([Rf] if Rf else []) + [Tm, AL]), n=1)]
    MT, FI, T, L, SY = S("evo.main_traj"), S("evo.tools.file_interface"), S("evo.core.trajectory"), S("evo.core.lie_algebra"), S("evo.core.sync")

    def write_inputs(d, vals=None):
        names = []
        for k, t in enumerate(Ts + ([Rf] if Rf else [])):
            p = os.path.join(d, ("traj%d" % k if t is not Rf else "reference") + (".txt" if fmt == "tum" else ".kitti"))
            rows = []
            for i in range(t.n):
                if fmt == "tum":
                    row = [t.t[i]] + t.p[i] + [t.q[i][1], t.q[i][2], t.q[i][3], t.q[i][0]]
                    rows.append([SymReal(v) for v in row])
                else:
                    Rz = zR(t.q[i])
                    rows.append([sc.mk(z3.simplify(Rz[a][b])) if b < 3 else SymReal(t.p[i][a]) for a in range(3) for b in range(4)])
            textcells.write_cells(p, rows)
            names.append(p)
        tfp = None
        if o.get("transform"):
            if o.get("tf") == "json":
                tfp = os.path.join(d, "tf.json")
                dd = {"x": SymReal(Tm.p[0][0]), "y": SymReal(Tm.p[0][1]), "z": SymReal(Tm.p[0][2]), "qw": SymReal(Tm.q[0][0]),
                      "qx": SymReal(Tm.q[0][1]), "qy": SymReal(Tm.q[0][2]), "qz": SymReal(Tm.q[0][3]), "scale": SymReal(zs)}
                with open(tfp, "w") as f:
                    f.write(textcells.JsonFacade.dumps(dd))
            else:
                tfp = os.path.join(d, "tf.npy")
                Rz = zR(Tm.q[0])
                M = [[sc.mk(z3.simplify(zs * Rz[a][b])) for b in range(3)] + [SymReal(Tm.p[0][a])] for a in range(3)] + [[0, 0, 0, 1]]
                textcells.save(tfp, symnp.array(M))
        return names, tfp

    def read(p):
        return (FI.read_tum_trajectory_file if fmt == "tum" else FI.read_kitti_poses_file)(p)

    def reference_composition(names, ref_name, tfp, args):
        """the documented order, wired independently from the core operations"""
        trajs = {p: read(p) for p in names if p != ref_name}
        ref = read(ref_name) if ref_name else None
        if o.get("downsample"):
            for t in list(trajs.values()) + ([ref] if ref else []):
                t.downsample(o["downsample"])
        if o.get("motion_filter"):
            for t in list(trajs.values()) + ([ref] if ref else []):
                t.motion_filter(SymReal(zd), SymReal(za), True)
        if o.get("merge"):
            trajs = {"merged_trajectory": T.merge(list(trajs.values()))}
        if o.get("t_offset"):
            for t in trajs.values():
                t.timestamps = t.timestamps + SymReal(zoff)
        if o.get("sync") or o.get("align") or o.get("align_origin") or o.get("correct_scale"):
            for k in list(trajs):
                if fmt == "kitti":
                    r = ref
                else:
                    r, trajs[k] = SY.associate_trajectories(ref, trajs[k], args.t_max_diff)
                if o.get("align") or o.get("correct_scale"):
                    # documented: rigid (-a), similarity (-a -s), scale only (-s); all poses (n = -1)
                    trajs[k].align(r, correct_scale=bool(o.get("correct_scale")),
                                   correct_only_scale=bool(o.get("correct_scale")) and not o.get("align"), n=-1)
                if o.get("align_origin"):
                    trajs[k].align_origin(r)
        if o.get("transform"):
            Rz = zR(Tm.q[0])
            if o.get("invert"):
                Rt = zT(Rz)
                ti = [-x / zs for x in zmat_vec(Rt, Tm.p[0])]
                M = [[Rt[a][b] / zs for b in range(3)] + [ti[a]] for a in range(3)] + [[0, 0, 0, 1]]
            else:
                M = [[zs * Rz[a][b] for b in range(3)] + [Tm.p[0][a]] for a in range(3)] + [[0, 0, 0, 1]]
            Tz = symnp.array([[sc.mk(z3.simplify(x)) if z3.is_expr(x) else x for x in row] for row in M])
            for t in trajs.values():
                t.transform(Tz, right_mul=(o["transform"] == "right"), propagate=bool(o.get("propagate")))
        if o.get("project"):
            pl = T.Plane(o["project"])
            for t in list(trajs.values()) + ([ref] if ref else []):
                t.project(pl)
        return trajs, ref

    def fn():
        textcells.reset()
        d = tempfile.mkdtemp(prefix="evoverif_c15_", dir=os.environ.get("TMPDIR", "/tmp"))
        cwd = os.getcwd()
        saved = (FI.write_tum_trajectory_file, FI.write_kitti_poses_file, MT.print_traj_info)
        saved_align = T.PosePath3D.align
        align_calls = []

        def stub_align(self, traj_ref, correct_scale=False, correct_only_scale=False, n=-1):
            """Umeyama alignment replaced by its *contract as seen by the driver*: some similarity (r, t, s) that depends
            only on the two trajectories' roles is applied in the mode the flags select (align() itself is C04).  The
            same stub serves the driver run and the reference composition, so what is decided is the driver's wiring:
            which trajectory, which reference, which flags, at which point of the order."""
            align_calls.append((correct_scale, correct_only_scale, n))
            Tz = AL.poses()[0]
            sz = SymReal(zas)
            if correct_only_scale:
                self.scale(sz)
            elif correct_scale:
                self.scale(sz)
                self.transform(Tz)
            else:
                self.transform(Tz)
            return Tz[:3, :3], Tz[:3, 3], sz
        captured = []
        try:
            names, tfp = write_inputs(d)
            ref_name = names[-1] if Rf else None
            args = make_args(d, o, names, ref_name, tfp)
            if o.get("t_offset"):
                args.t_offset = SymReal(zoff)
            if o.get("motion_filter"):
                args.motion_filter = [SymReal(zd), SymReal(za)]
            FI.write_tum_trajectory_file = lambda dest, traj, confirm_overwrite=False: captured.append((dest, traj))
            FI.write_kitti_poses_file = lambda dest, traj, confirm_overwrite=False: captured.append((dest, traj))
            MT.print_traj_info = lambda *a, **k: None        # info printing (path length etc.) is not the subject
            T.PosePath3D.align = stub_align
            os.chdir(d)
            with loader.activate():
                MT.run(args)
            exp_trajs, exp_ref = reference_composition(names, ref_name, tfp, args)
            return captured, exp_trajs, exp_ref, names, ref_name
        finally:
            FI.write_tum_trajectory_file, FI.write_kitti_poses_file, MT.print_traj_info = saved
            T.PosePath3D.align = saved_align
            os.chdir(cwd)
            shutil.rmtree(d, ignore_errors=True)

    def replay(vals):
        return replay_real(vals, o, Ts, Rf, Tm, n, fmt)

    def same(a, b):
        """goal: trajectories a (exported) and b (expected) describe the same poses, entry by entry"""
        if a.num_poses != b.num_poses:
            return z3.BoolVal(False)
        eqs = []
        for i in range(a.num_poses):
            eqs += [sc.eq_goal(a.poses_se3[i][r, c], b.poses_se3[i][r, c]) for r in range(4) for c in range(4)]
            eqs += [sc.eq_goal(a.positions_xyz[i][c], b.positions_xyz[i][c]) for c in range(3)]
            if hasattr(a, "timestamps") != hasattr(b, "timestamps"):
                return z3.BoolVal(False)
            if hasattr(a, "timestamps"):
                eqs.append(sc.eq_goal(a.timestamps[i], b.timestamps[i]))
        return z3.And(eqs) if eqs else z3.BoolVal(True)

    def on_ok(pr):
        captured, exp_trajs, exp_ref, names, ref_name = pr.out
        ext = ".tum" if fmt == "tum" else ".kitti"
        exp_list = [(os.path.splitext(os.path.basename(k))[0] + ext, t) for k, t in exp_trajs.items()]
        if exp_ref is not None:
            exp_list.append(("reference" + ext, exp_ref))
        g = {"one_export_per_trajectory_and_reference_under_the_input_stem": z3.BoolVal([c[0] for c in captured] == [e[0] for e in exp_list])}
        if [c[0] for c in captured] == [e[0] for e in exp_list]:
            for (dest, got), (_, exp) in zip(captured, exp_list):
                g["export_%s_equals_inputs_processed_in_documented_order" % dest] = same(got, exp)
        if not any(o.get(k) for k in ("downsample", "motion_filter", "merge", "t_offset", "sync", "align", "correct_scale", "align_origin", "transform", "project")):
            # without processing options the export is the input
            src = Ts[0]
            got = captured[0][1] if captured else None
            if got is not None and got.num_poses == src.n:
                eqs = []
                for i in range(src.n):
                    eqs += [sc.eq_goal(got.positions_xyz[i][c], SymReal(src.p[i][c])) for c in range(3)]
                    Rz = zR(src.q[i])
                    eqs += [toz(got.poses_se3[i][a, b]) == Rz[a][b] for a in range(3) for b in range(3)]
                    if fmt == "tum":
                        eqs.append(sc.eq_goal(got.timestamps[i], SymReal(src.t[i])))
                g["export_equals_input_without_options"] = z3.And(eqs)
            else:
                g["export_equals_input_without_options"] = z3.BoolVal(False)
        only_transform = not any(o.get(k) for k in ("downsample", "motion_filter", "merge", "sync", "align", "correct_scale", "align_origin", "project", "propagate"))
        if o.get("transform") and o.get("invert") and captured and only_transform:
            # the applied matrix is the true inverse of the loaded one: exported pose = T^-1 * P (left) / P * T^-1 (right)
            Rz = zR(Tm.q[0])
            Rt = zT(Rz)
            ti = [-x / zs for x in zmat_vec(Rt, Tm.p[0])]
            Minv = [[Rt[a][b] / zs for b in range(3)] + [ti[a]] for a in range(3)] + [[0, 0, 0, 1]]
            eqs = []
            for k, (dest, got) in enumerate(captured[:len(Ts)]):
                src = Ts[k]
                for i in range(min(got.num_poses, src.n)):
                    Pz = zpose(src.q[i], src.p[i])
                    E = zmat_mul(Minv, Pz) if o["transform"] == "left" else zmat_mul(Pz, Minv)
                    eqs += [toz(got.poses_se3[i][a, b]) == (E[a][b] if z3.is_expr(E[a][b]) else sc.q_of(Fraction(E[a][b])))
                            for a in range(3) for b in range(4)]
            g["inverted_transformation_is_the_true_inverse_of_the_loaded_matrix"] = z3.And(eqs) if eqs else z3.BoolVal(False)
        def hook(ctx, query):
            """generic rational witnesses (pinned inputs): a model with degenerate positions makes the real Umeyama refuse"""
            out = []
            for pin in pins:
                r_, m_ = ctx.solve(list(query) + list(pin), kind="bughunt", full=True, timeout_ms=20000, groups=("def", "cons"))
                if r_ == "sat":
                    out.append(runner.model_values(m_, inputs))
            return out
        runner.check_obligations(col, pr.ctx, g, inputs, replay, descr=case["name"], timeout_ms=120000,
                                 witness_hook=hook if (o.get("align") or o.get("correct_scale")) else None)

    def on_exc(pr):
        if type(pr.exc).__name__ == "SyncException" and (o.get("sync") or o.get("align") or o.get("align_origin") or o.get("correct_scale")):
            return      # no matching stamps: evo_traj stops with the error and exports nothing (nothing to compare)
        col.d["harness_errors"].append(dict(ob="path", why="unexpected %s: %s" % (pr.status, pr.exc)))
    runner.explore_case(col, fn, assume, on_ok, on_exc, timeout_ms=120000, pins=pins, max_paths=300, must_reach=("ok",))


def replay_real(vals, o, Ts, Rf, Tm, n, fmt):
    """real evo_traj on real files; expected poses from an independent numpy composition"""
    FIr, MTr, Tr, SYr = common.R("evo.tools.file_interface"), common.R("evo.main_traj"), common.R("evo.core.trajectory"), common.R("evo.core.sync")
    d = tempfile.mkdtemp(prefix="evoverif_c15r_", dir=os.environ.get("TMPDIR", "/tmp"))
    cwd = os.getcwd()
    try:
        names = []
        objs = []
        for k, t in enumerate(Ts + ([Rf] if Rf else [])):
            p = os.path.join(d, ("traj%d" % k if t is not Rf else "reference") + (".txt" if fmt == "tum" else ".kitti"))
            c = t.concrete(vals, "quat" if fmt == "tum" else "se3")
            (FIr.write_tum_trajectory_file if fmt == "tum" else FIr.write_kitti_poses_file)(p, c)
            names.append(p)
            objs.append(c)
        ref_name = names[-1] if Rf else None
        tfp = None
        s = float(vals["tf_scale"]) if o.get("sim3") else 1.0
        X = Tm.concrete(vals, "se3").poses_se3[0]
        Tmat = X.copy()
        Tmat[:3, :3] *= s
        if o.get("transform"):
            if o.get("tf") == "json":
                import json
                q = Tm.concrete(vals).orientations_quat_wxyz[0]
                tfp = os.path.join(d, "tf.json")
                json.dump({"x": X[0, 3], "y": X[1, 3], "z": X[2, 3], "qw": q[0], "qx": q[1], "qy": q[2], "qz": q[3], "scale": s}, open(tfp, "w"))
            else:
                tfp = os.path.join(d, "tf.npy")
                rnp.save(tfp, Tmat)
        args = make_args(d, o, names, ref_name, tfp)
        if o.get("t_offset"):
            args.t_offset = float(vals["t_offset"])
        if o.get("motion_filter"):
            args.motion_filter = [float(vals["mf_dist"]), float(vals["mf_angle"])]
        os.chdir(d)
        try:
            MTr.run(args)
        except SystemExit:
            return False, "evo_traj exited"
        except Exception as e:      # noqa: BLE001  (degenerate alignment input, no matching stamps, ...)
            return False, "evo_traj stopped with %s" % type(e).__name__
        ext = ".tum" if fmt == "tum" else ".kitti"
        bad = []
        # independent expectation only for the order-sensitive, deterministic options
        simple = not any(o.get(k) for k in ("motion_filter", "merge", "align", "correct_scale", "sync"))
        for k, t in enumerate(Ts):
            if o.get("merge"):
                break
            out = os.path.join(d, "traj%d%s" % (k, ext))
            if not os.path.exists(out):
                bad.append("no export for trajectory %d" % k)
                continue
            got = (FIr.read_tum_trajectory_file if fmt == "tum" else FIr.read_kitti_poses_file)(out)
            if not simple:
                # expectation from the real core operations in the documented order (ownership rule: the operations
                # themselves belong to C04 / C05 / C11)
                est = copy.deepcopy(objs[k])
                ref = copy.deepcopy(objs[-1]) if Rf else None
                try:
                    if o.get("downsample"):
                        est.downsample(o["downsample"])
                        ref and ref.downsample(o["downsample"])
                    if o.get("motion_filter"):
                        est.motion_filter(float(vals["mf_dist"]), float(vals["mf_angle"]), True)
                        ref and ref.motion_filter(float(vals["mf_dist"]), float(vals["mf_angle"]), True)
                    if o.get("t_offset"):
                        est.timestamps += float(vals["t_offset"])
                    if any(o.get(x) for x in ("sync", "align", "correct_scale", "align_origin")):
                        r = ref
                        if fmt == "tum":
                            r, est = SYr.associate_trajectories(ref, est, args.t_max_diff)
                        if o.get("align") or o.get("correct_scale"):
                            est.align(r, correct_scale=bool(o.get("correct_scale")),
                                      correct_only_scale=bool(o.get("correct_scale")) and not o.get("align"), n=-1)
                        if o.get("align_origin"):
                            est.align_origin(r)
                    if o.get("transform"):
                        M = rnp.linalg.inv(Tmat) if o.get("invert") else Tmat
                        est.transform(M, right_mul=(o["transform"] == "right"), propagate=bool(o.get("propagate")))
                    if o.get("project"):
                        est.project(Tr.Plane(o["project"]))
                except Exception as e:      # noqa: BLE001  (e.g. degenerate alignment input: evo_traj would have stopped too)
                    bad.append("reference composition on the real operations raised %s although evo_traj exported" % type(e).__name__)
                    continue
                m = max(1.0, float(rnp.abs(est.positions_xyz).max()))
                if got.num_poses != est.num_poses:
                    bad.append("trajectory %d: %d poses exported, the documented order gives %d" % (k, got.num_poses, est.num_poses))
                elif not rnp.allclose(got.positions_xyz, est.positions_xyz, atol=1e-7 * m * m):
                    bad.append("trajectory %d: exported positions differ from the documented order of operations (max %.3g)" % (
                        k, float(rnp.abs(got.positions_xyz - est.positions_xyz).max())))
                continue
            P = [p.copy() for p in objs[k].poses_se3]
            ts = objs[k].timestamps.copy() if fmt == "tum" else None
            if o.get("downsample") and len(P) > o["downsample"]:
                ids = rnp.linspace(0, len(P) - 1, o["downsample"], dtype=int)
                P = [P[i] for i in ids]
                ts = ts[ids] if ts is not None else None
            if o.get("t_offset"):
                ts = ts + float(vals["t_offset"])
            if o.get("align_origin"):
                R0 = objs[-1].poses_se3[0]
                A = R0.dot(rnp.linalg.inv(P[0]))
                P = [A.dot(p) for p in P]
            if o.get("transform"):
                M = rnp.linalg.inv(Tmat) if o.get("invert") else Tmat
                if o["transform"] == "left":
                    P = [M.dot(p) for p in P]
                elif o.get("propagate"):
                    new = [P[0]]
                    for i in range(len(P) - 1):
                        new.append(new[i].dot(rnp.linalg.inv(P[i]).dot(P[i + 1]).dot(M)))
                    P = new
                else:
                    P = [p.dot(M) for p in P]
            if got.num_poses != len(P):
                bad.append("trajectory %d: %d poses exported, %d expected" % (k, got.num_poses, len(P)))
                continue
            m = max(1.0, max(float(rnp.abs(p).max()) for p in P))
            for i in range(len(P)):
                if o.get("project"):
                    if abs(got.poses_se3[i][2, 3]) > 1e-9 or not rnp.allclose(got.poses_se3[i][:2, 3], P[i][:2, 3], atol=1e-7 * m * m):
                        bad.append("trajectory %d pose %d: projection not applied last" % (k, i))
                elif not rnp.allclose(got.positions_xyz[i], P[i][:3, 3], atol=1e-7 * m * m):
                    bad.append("trajectory %d pose %d: exported position %r, documented order gives %r" % (k, i, got.positions_xyz[i], P[i][:3, 3]))
                if ts is not None and abs(got.timestamps[i] - ts[i]) > 1e-9 * max(1.0, abs(ts[i])):
                    bad.append("trajectory %d pose %d: timestamp" % (k, i))
        if Rf and os.path.exists(os.path.join(d, "reference" + ext)) and not o.get("downsample") and not o.get("project"):
            got = (FIr.read_tum_trajectory_file if fmt == "tum" else FIr.read_kitti_poses_file)(os.path.join(d, "reference" + ext))
            if not rnp.allclose(got.positions_xyz, objs[-1].positions_xyz, atol=1e-9) or \
                    (fmt == "tum" and not rnp.allclose(got.timestamps, objs[-1].timestamps, atol=1e-12)):
                bad.append("the reference itself was changed (it is only down-sampled, filtered and projected)")
        return bool(bad), "; ".join(bad[:3]) or "ok"
    finally:
        os.chdir(cwd)
        shutil.rmtree(d, ignore_errors=True)


def replay_file(rec):
    return False, "re-run ./check C15"
