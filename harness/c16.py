"""C16 -- computations do not modify their inputs or other trajectory objects.

Facade arrays are real numpy (object) arrays, so aliasing and in-place writes behave as in production.
Part A: every listed computing / writing function is run on symbolic inputs and its arguments are compared
with a snapshot (object graph of arrays, element terms).  Part B: an object B is derived from A (copy,
association, split part, merge), one mutating operation is applied to B, and A's views are compared
with their snapshot.
"""
import copy
import os
import shutil
import tempfile
from fractions import Fraction

import numpy as rnp
import z3

from evoverif import runner, symcore as sc, symnp, textcells
from evoverif.symcore import SymReal, toz
from . import common
from .common import SymTraj

PROPERTY = "C16"
FUNCTIONS = ["metrics.APE/RPE.process_data", "PE.get_all_statistics", "PE.get_result", "PosePath3D.align / align_origin (reference argument)",
             "sync.associate_trajectories", "sync.matching_time_indices", "filters.filter_pairs_by_index/_path/_angle", "filters.filter_by_motion",
             "metrics.id_pairs_from_delta", "trajectory.merge", "geometry.umeyama_alignment", "geometry.accumulated_distances", "geometry.arc_len",
             "lie_algebra.se3_inverse / relative_se3 / sim3_inverse / so3_log", "file_interface.write_tum_trajectory_file / write_kitti_poses_file / "
             "save_res_file", "pandas_bridge.trajectory_to_df / result_to_df", "PosePath3D.get_infos / get_statistics / check / distances / speeds / __eq__",
             "split_time_gaps / split_distance_gaps / split_speed_outliers", "copy.deepcopy", "transform / scale / project / reduce_to_ids (mutators)",
             "plot.traj / traj_xyz / traj_rpy / speeds / traj_colormap / draw_coordinate_axes / draw_correspondence_edges / trajectories"]
BOUNDS = {"quick": "N = 3 poses for the argument snapshots (34 functions incl. 8 plot functions); N = 2 for all 7 x 5 derivation x mutation pairs "
                   "(two-step histories)", "thorough": "the same cases (the tiers do not differ for this property)"}
STUBS = ["SVD / eigh / sqrt / acos* / atan2 stubs as elsewhere", "savetxt / save / json text-cell stubs (do not write to their argument)"]
ASSUMPTIONS = ["valid trajectories"]
OUTSIDE = ["plot functions beyond the 8 listed (ros_map, map_tile, PlotCollection)", "bag writer"]
MODS = ("evo.tools.file_interface", "evo.tools.pandas_bridge", "evo.tools.plot")
PLOTS = ["traj", "traj_xyz", "traj_rpy", "speeds", "traj_colormap", "draw_coordinate_axes", "draw_correspondence_edges", "trajectories"]

DERIVE = ["deepcopy", "associate_first", "associate_second", "split_time_gaps", "split_distance_gaps", "split_speed_outliers", "merge"]
MUTATE = ["transform", "scale", "project", "reduce_to_ids", "align_origin"]
PURE = ["ape_trans", "ape_full", "rpe_trans", "rpe_point", "statistics", "align_origin_ref", "associate", "matching_indices",
        "pairs_index", "pairs_path", "pairs_path_all", "pairs_angle", "motion_filter_ids", "id_pairs_from_delta", "merge_args", "umeyama",
        "accumulated_distances", "lie_helpers", "write_tum", "write_kitti", "save_res", "to_df", "result_to_df", "infos_stats_check", "equality",
        "split_args"]


def worker_init():
    from . import c20
    c20.worker_init(MODS)          # evo.tools.plot bound to the recording artists of C20


def cases(tier, seed):
    out = [dict(name="rotation_lemmas", kind="lemmas")]
    for p in PURE:
        out.append(dict(name="args_unchanged__" + p, kind="pure", fn=p))
    for pl in PLOTS:
        out.append(dict(name="args_unchanged__plot_" + pl, kind="plot", fn=pl))
    for d in DERIVE:
        for m in MUTATE:
            out.append(dict(name="independent__%s__then__%s" % (d, m), kind="derive", derive=d, mutate=m))
    return out


def run_case(case, col):
    if case["kind"] == "lemmas":
        from evoverif import lemmas
        return lemmas.lemma_case(col)
    globals()["run_" + case["kind"]](case, col)


def S(n):
    return common.S(n)


# --------------------------------------------------------------------------
# snapshots
# --------------------------------------------------------------------------
def snap_traj(t):
    d = {"views": {}}
    for k in ("_positions_xyz", "_orientations_quat_wxyz", "timestamps"):
        if hasattr(t, k):
            d["views"][k] = (getattr(t, k), rnp.asarray(getattr(t, k)).copy())
    if hasattr(t, "_poses_se3"):
        d["poses"] = (t._poses_se3, [(p, rnp.asarray(p).copy()) for p in t._poses_se3])
    d["projected"] = t._projected
    d["meta"] = dict(t.meta)
    return d


def traj_unchanged(t, s, real=False):
    eq = (lambda a, b: rnp.array_equal(a, b)) if real else common.same_terms
    for k, (obj, cp) in s["views"].items():
        if not hasattr(t, k) or not eq(getattr(t, k), cp) or not eq(obj, cp):
            return False
    for k in ("_positions_xyz", "_orientations_quat_wxyz"):
        if hasattr(t, k) and k not in s["views"]:
            # a lazily materialised view is fine as long as it describes the same poses (checked through poses)
            pass
    if "poses" in s:
        lst, items = s["poses"]
        if not hasattr(t, "_poses_se3") or len(t._poses_se3) != len(items):
            return False
        for cur, (obj, cp) in zip(t._poses_se3, items):
            if not eq(cur, cp) or not eq(obj, cp):
                return False
    return t._projected == s["projected"] and t.meta == s["meta"]


def views_of(t):
    """(positions, quaternions, poses, stamps) copies as seen through the public views"""
    return (rnp.asarray(t.positions_xyz).copy(), rnp.asarray(t.orientations_quat_wxyz).copy(),
            [rnp.asarray(p).copy() for p in t.poses_se3], rnp.asarray(t.timestamps).copy() if hasattr(t, "timestamps") else None)


def views_equal(a, b, real=False):
    eq = (lambda x, y: rnp.array_equal(x, y)) if real else common.same_terms
    if not eq(a[0], b[0]) or len(a[2]) != len(b[2]) or not all(eq(x, y) for x, y in zip(a[2], b[2])):
        return False
    if (a[3] is None) != (b[3] is None) or (a[3] is not None and not eq(a[3], b[3])):
        return False
    if real:
        return rnp.allclose(a[1], b[1]) or rnp.allclose(a[1], -b[1])
    return eq(a[1], b[1])


# --------------------------------------------------------------------------
# Part A
# --------------------------------------------------------------------------
def pure_call(name, mods, A, B, extra, real=False):
    """runs function `name` on trajectories A, B (facade or real); returns list of (label, object, kind) to compare"""
    M, T, F, L, G, SY, FI, PB, U, R = mods
    th = extra["thr"]
    if name.startswith("ape_"):
        m = M.APE(M.PoseRelation.translation_part if name == "ape_trans" else M.PoseRelation.full_transformation)
        m.process_data((A, B))
    elif name.startswith("rpe_"):
        m = M.RPE(M.PoseRelation.translation_part if name == "rpe_trans" else M.PoseRelation.point_distance_error_ratio, 1, U.Unit.frames)
        try:
            m.process_data((A, B))
        except ValueError:
            pass
    elif name == "statistics":
        m = M.APE(M.PoseRelation.translation_part)
        m.process_data((A, B))
        err = m.error
        before = rnp.asarray(err).copy()
        m.get_all_statistics()
        m.get_result("r", "e")
        extra["stat_ok"] = (rnp.array_equal(err, before) if real else common.same_terms(err, before))
    elif name == "align_origin_ref":
        c = copy.deepcopy(B)
        c.align_origin(A)
    elif name == "associate":
        try:
            SY.associate_trajectories(A, B, th, extra["off"])
        except SY.SyncException:
            pass
    elif name == "matching_indices":
        s1, s2 = A.timestamps, B.timestamps
        SY.matching_time_indices(s1, s2, th, extra["off"])
    elif name == "pairs_index":
        F.filter_pairs_by_index(A.poses_se3, 1, True)
    elif name in ("pairs_path", "pairs_path_all"):
        F.filter_pairs_by_path(A.poses_se3, th, th, name.endswith("all"))
    elif name == "pairs_angle":
        F.filter_pairs_by_angle(A.poses_se3, extra["ang"], 0, False, False)
    elif name == "motion_filter_ids":
        F.filter_by_motion(A.poses_se3, th, extra["ang"])
    elif name == "id_pairs_from_delta":
        try:
            M.id_pairs_from_delta(A.poses_se3, th, U.Unit.meters, 0.5, True)
        except F.FilterException:
            pass
    elif name == "merge_args":
        T.merge([A, B])
    elif name == "umeyama":
        x, y = A.positions_xyz.T, B.positions_xyz.T
        try:
            G.umeyama_alignment(x, y, True)
        except G.GeometryException:
            pass
    elif name == "accumulated_distances":
        G.accumulated_distances(A.positions_xyz)
        G.arc_len(A.positions_xyz)
    elif name == "lie_helpers":
        p, q = A.poses_se3[0], A.poses_se3[1]
        L.se3_inverse(p)
        L.relative_se3(p, q)
        L.sim3_inverse(p)
        L.so3_log(p[:3, :3])
        L.is_se3(p)
    elif name in ("write_tum", "write_kitti", "save_res"):
        d = tempfile.mkdtemp(prefix="evoverif_c16_", dir=os.environ.get("TMPDIR", "/tmp"))
        try:
            if name == "write_tum":
                FI.write_tum_trajectory_file(os.path.join(d, "a.tum"), A)
            elif name == "write_kitti":
                FI.write_kitti_poses_file(os.path.join(d, "a.kitti"), A)
            else:
                r = R.Result()
                r.add_info({"title": "t"})
                r.add_stats({"rmse": A.positions_xyz[0][0]})
                arr = A.positions_xyz[:, 0]
                r.add_np_array("error_array", arr)
                r.add_trajectory("ref", A)
                r.add_trajectory("est", B)
                before = (dict(r.info), dict(r.stats), rnp.asarray(arr).copy(), list(r.trajectories))
                FI.save_res_file(os.path.join(d, "r.zip"), r)
                eq = rnp.array_equal if real else common.same_terms
                extra["res_ok"] = (r.info == before[0] and list(r.stats) == list(before[1]) and eq(r.np_arrays["error_array"], before[2])
                                   and list(r.trajectories) == before[3])
        finally:
            shutil.rmtree(d, ignore_errors=True)
    elif name == "to_df":
        PB.trajectory_to_df(A)
    elif name == "result_to_df":
        r = R.Result()
        r.add_info({"title": "t", "est_name": "e"})
        r.add_stats({"rmse": A.positions_xyz[0][0]})
        r.add_np_array("error_array", A.positions_xyz[:, 0])
        PB.result_to_df(r)
    elif name == "infos_stats_check":
        A.get_infos()
        A.get_statistics()
        A.check()
        A.distances
        A.speeds
        A.path_length
        str(A)
    elif name == "equality":
        A == B
        A != B
    elif name == "split_args":
        A.split_time_gaps(th)
        A.split_distance_gaps(th)
        A.split_speed_outliers(th)


def mods(real):
    g = common.R if real else common.S
    return (g("evo.core.metrics"), g("evo.core.trajectory"), g("evo.core.filters"), g("evo.core.lie_algebra"), g("evo.core.geometry"),
            g("evo.core.sync"), g("evo.tools.file_interface"), g("evo.tools.pandas_bridge"), g("evo.core.units"), g("evo.core.result"))


def run_pure(case, col):
    name = case["fn"]
    n = 3
    TA, TB = SymTraj("a", n), SymTraj("b", n)
    zt, zo, za = z3.Real("thr"), z3.Real("off"), z3.Real("ang")
    inputs = dict(TA.inputs(), **TB.inputs())
    inputs.update(thr=zt, off=zo, ang=za)
    assume = TA.assumptions() + TB.assumptions() + [zt > 0, zo != 0, za > 0, za < 3]
    mode = "se3" if name in ("write_kitti", "lie_helpers", "pairs_index", "pairs_angle", "motion_filter_ids") else "quat"

    def fn():
        textcells.reset()
        A, B = TA.build(mode), TB.build(mode)
        if name in ("ape_full", "rpe_trans", "equality", "infos_stats_check", "to_df", "merge_args"):
            A.poses_se3, B.poses_se3, A.positions_xyz, A.orientations_quat_wxyz
        sa, sb = snap_traj(A), snap_traj(B)
        va, vb = views_of(A), views_of(B)
        extra = dict(thr=SymReal(zt), off=SymReal(zo), ang=SymReal(za))
        pure_call(name, mods(False), A, B, extra)
        return A, B, sa, sb, va, vb, extra

    def replay(vals):
        A, B = TA.concrete(vals, mode), TB.concrete(vals, mode)
        sa, sb = snap_traj(A), snap_traj(B)
        va, vb = views_of(A), views_of(B)
        extra = dict(thr=float(vals["thr"]), off=float(vals["off"]), ang=float(vals["ang"]))
        try:
            pure_call(name, mods(True), A, B, extra, real=True)
        except Exception as e:      # noqa: BLE001
            return False, "replay raised %s" % e
        bad = []
        if not traj_unchanged(A, sa, True) or not views_equal(views_of(A), va, True):
            bad.append("first argument modified by %s" % name)
        if not traj_unchanged(B, sb, True) or not views_equal(views_of(B), vb, True):
            bad.append("second argument modified by %s" % name)
        if extra.get("stat_ok") is False or extra.get("res_ok") is False:
            bad.append("metric / result object modified")
        return bool(bad), "; ".join(bad) or "ok"

    def on_ok(pr):
        A, B, sa, sb, va, vb, extra = pr.out
        g = {"first_argument_unchanged": z3.BoolVal(traj_unchanged(A, sa) and views_equal(views_of(A), va)),
             "second_argument_unchanged": z3.BoolVal(traj_unchanged(B, sb) and views_equal(views_of(B), vb))}
        if "stat_ok" in extra:
            g["error_values_unchanged_by_statistics"] = z3.BoolVal(bool(extra["stat_ok"]))
        if "res_ok" in extra:
            g["result_unchanged_by_saving"] = z3.BoolVal(bool(extra["res_ok"]))
        runner.check_obligations(col, pr.ctx, g, inputs, replay, descr=case["name"])

    def on_exc(pr):
        col.d["harness_errors"].append(dict(ob="path", why="unexpected %s: %s" % (pr.status, pr.exc)))
    runner.explore_case(col, fn, assume, on_ok, on_exc, timeout_ms=30000, pins=common.pins_for(TA, TB, n=1), max_paths=400)


# --------------------------------------------------------------------------
# Part A': plot functions (recording artists of C20) leave the plotted trajectories unchanged
# --------------------------------------------------------------------------
def plot_call(name, Pm, mk_axes, A, B, start, real=False):
    mode = Pm.PlotMode.xyz
    if name == "traj":
        Pm.traj(mk_axes(True), mode, A, label="a")
    elif name == "traj_xyz":
        Pm.traj_xyz([mk_axes(False) for _ in range(3)], A, start_timestamp=start)
    elif name == "traj_rpy":
        Pm.traj_rpy([mk_axes(False) for _ in range(3)], A, start_timestamp=start)
    elif name == "speeds":
        Pm.speeds(mk_axes(False), A, start_timestamp=start)
    elif name == "traj_colormap":
        arr = A.positions_xyz[:, 0]
        Pm.traj_colormap(mk_axes(True), A, arr, mode, 0, 1)
    elif name == "draw_coordinate_axes":
        Pm.draw_coordinate_axes(mk_axes(True), A, mode, 0.5)
    elif name == "draw_correspondence_edges":
        Pm.draw_correspondence_edges(mk_axes(True), A, B, mode)
    elif name == "trajectories":
        Pm.trajectories(mk_axes(True), {"a": A, "b": B}, mode)


def run_plot(case, col):
    from . import c20
    name = case["fn"]
    n = 3
    TA, TB = SymTraj("a", n), SymTraj("b", n)
    z0 = z3.Real("start_timestamp")
    inputs = dict(TA.inputs(), **TB.inputs())
    inputs.update(start_timestamp=z0)
    assume = TA.assumptions() + TB.assumptions() + [z0 != 0]

    def fn():
        A, B = TA.build("quat"), TB.build("quat")
        A.poses_se3, B.poses_se3
        sa, sb = snap_traj(A), snap_traj(B)
        va, vb = views_of(A), views_of(B)
        plot_call(name, S("evo.tools.plot"), lambda three: c20.RecAxes3D() if three else c20.RecAxes(), A, B, SymReal(z0))
        return A, B, sa, sb, va, vb

    def replay(vals):
        Pr, plt = c20.real_plot_env()
        A, B = TA.concrete(vals), TB.concrete(vals)
        A.poses_se3, B.poses_se3
        sa, sb = snap_traj(A), snap_traj(B)
        va, vb = views_of(A), views_of(B)
        try:
            fig = plt.figure()

            def mk_axes(three):
                return fig.add_subplot(projection="3d") if three else fig.add_subplot()
            plot_call(name, Pr, mk_axes, A, B, float(vals["start_timestamp"]), real=True)
        except Exception as e:      # noqa: BLE001
            return False, "replay raised %s: %s" % (type(e).__name__, e)
        finally:
            plt.close("all")
        bad = []
        if not traj_unchanged(A, sa, True) or not views_equal(views_of(A), va, True):
            bad.append("plot.%s modified the plotted trajectory" % name)
        if not traj_unchanged(B, sb, True) or not views_equal(views_of(B), vb, True):
            bad.append("plot.%s modified the second trajectory" % name)
        return bool(bad), "; ".join(bad) or "ok"

    def on_ok(pr):
        A, B, sa, sb, va, vb = pr.out
        g = {"plotted_trajectory_unchanged": z3.BoolVal(traj_unchanged(A, sa) and views_equal(views_of(A), va)),
             "second_trajectory_unchanged": z3.BoolVal(traj_unchanged(B, sb) and views_equal(views_of(B), vb))}
        runner.check_obligations(col, pr.ctx, g, inputs, replay, descr=case["name"])

    def on_exc(pr):
        col.d["harness_errors"].append(dict(ob="path", why="unexpected %s: %s" % (pr.status, pr.exc)))
    runner.explore_case(col, fn, assume, on_ok, on_exc, timeout_ms=30000, pins=common.pins_for(TA, TB, n=1), max_paths=400, must_reach=("ok",))


# --------------------------------------------------------------------------
# Part B
# --------------------------------------------------------------------------
def derive(how, T, SY, A, C, thr):
    """returns list of derived objects"""
    if how == "deepcopy":
        return [copy.deepcopy(A)]
    if how.startswith("associate"):
        try:
            o1, o2 = SY.associate_trajectories(A, C, thr, 0)
        except SY.SyncException:
            return []
        return [o1 if how.endswith("first") else o2]
    if how == "split_time_gaps":
        return [p for p in A.split_time_gaps(thr) if p is not A]
    if how == "split_distance_gaps":
        return [p for p in A.split_distance_gaps(thr) if p is not A]
    if how == "split_speed_outliers":
        return [p for p in A.split_speed_outliers(thr) if p is not A]
    if how == "merge":
        return [T.merge([A, C])]


def mutate(how, T, obj, Tm, s, ref):
    if how == "transform":
        obj.transform(Tm)
    elif how == "scale":
        obj.scale(s)
    elif how == "project":
        obj.project(T.Plane.XY)
    elif how == "reduce_to_ids":
        obj.reduce_to_ids([0])
    elif how == "align_origin":
        obj.align_origin(ref)


def run_derive(case, col):
    dv, mu = case["derive"], case["mutate"]
    n = 2
    TA, TC, TM = SymTraj("a", n), SymTraj("c", 1 if dv == "merge" else n), SymTraj("T", 1, stamps=False)
    zt, zs = z3.Real("thr"), z3.Real("scale")
    inputs = dict(TA.inputs(), **TC.inputs())
    inputs.update(TM.inputs())
    inputs.update(thr=zt, scale=zs)
    assume = TA.assumptions() + TC.assumptions() + TM.assumptions() + [zt >= 0, zs > 0]
    if dv == "merge":
        assume += [TA.t[i] != TC.t[j] for i in range(n) for j in range(TC.n)]

    def fn():
        T, SY = S("evo.core.trajectory"), S("evo.core.sync")
        A, C = TA.build("se3"), TC.build("se3")
        A.positions_xyz
        va, vc = views_of(A), views_of(C)
        ds = derive(dv, T, SY, A, C, SymReal(zt))
        for d in ds:
            mutate(mu, T, d, TM.poses()[0], SymReal(zs), C)
        return A, C, va, vc, len(ds)

    def replay(vals):
        T, SY = common.R("evo.core.trajectory"), common.R("evo.core.sync")
        A, C = TA.concrete(vals, "se3"), TC.concrete(vals, "se3")
        A.positions_xyz
        va, vc = views_of(A), views_of(C)
        try:
            ds = derive(dv, T, SY, A, C, float(vals["thr"]))
            for d in ds:
                mutate(mu, T, d, TM.concrete(vals, "se3").poses_se3[0], float(vals["scale"]), C)
        except Exception as e:      # noqa: BLE001
            return False, "replay raised %s" % e
        bad = []
        if not views_equal(views_of(A), va, True):
            bad.append("%s on an object derived by %s changed the poses seen through the original trajectory" % (mu, dv))
        if not views_equal(views_of(C), vc, True):
            bad.append("%s on an object derived by %s changed the second input" % (mu, dv))
        return bool(bad), "; ".join(bad) or "ok"

    def on_ok(pr):
        A, C, va, vc, k = pr.out
        g = {"original_unchanged_by_operation_on_derived_object": z3.BoolVal(views_equal(views_of(A), va)),
             "other_input_unchanged": z3.BoolVal(views_equal(views_of(C), vc))}
        runner.check_obligations(col, pr.ctx, g, inputs, replay, descr="%s (%d derived objects)" % (case["name"], k))

    def on_exc(pr):
        col.d["harness_errors"].append(dict(ob="path", why="unexpected %s: %s" % (pr.status, pr.exc)))
    runner.explore_case(col, fn, assume, on_ok, on_exc, timeout_ms=30000, pins=common.pins_for(TA, TC, TM, n=1), max_paths=600)


def replay_file(rec):
    return False, "re-run ./check C16"
