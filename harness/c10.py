"""C10 -- RPE pair selection returns exactly the pairs that realise the requested delta.

Real functions executed: filters.filter_pairs_by_index / by_path / by_angle, metrics.id_pairs_from_delta,
geometry.accumulated_distances.  Step lengths are sqrt-stub atoms, rotation angles acos* applications;
thresholds are compared linearly, so the selection logic is decided for all inputs in the bound.
"""
from fractions import Fraction
import math

import numpy as rnp
import z3

from evoverif import runner, symcore as sc, symnp, symrot, stubs
from evoverif.symcore import SymReal, toz
from . import common
from .common import SymTraj, zR, zT, zmat_mul

PROPERTY = "C10"
FUNCTIONS = ["filters.filter_pairs_by_index", "filters.filter_pairs_by_path", "filters.filter_pairs_by_angle",
             "metrics.id_pairs_from_delta", "geometry.accumulated_distances", "lie_algebra.so3_log_angle", "relative_so3"]
BOUNDS = {"quick": "N <= 4 poses (frames: N <= 5, delta 1..N), symbolic positions / rotations R(q), symbolic delta > 0 and tolerance >= 0",
          "thorough": "N <= 5"}
STUBS = ["sqrt stub for step lengths", "acos* for rotation angles (scipy's as_rotvec norm equals that angle: contract)"]
ASSUMPTIONS = ["unit quaternions", "delta > 0, rel_tol >= 0"]
OUTSIDE = ["that scipy's rotvec norm equals acos((tr-1)/2)", "N beyond the bound", "float accumulation order"]


def worker_init():
    common.ensure_loaded()


def cases(tier, seed):
    out = [dict(name="rotation_lemmas", kind="lemmas")]
    nmax = 4 if tier == "quick" else 5
    for n in range(1, nmax + 2):
        out.append(dict(name="frames_N%d" % n, kind="frames", n=n))
    for n in range(2, nmax + 1):
        out.append(dict(name="path_consecutive_N%d" % n, kind="path", n=n, all_pairs=False))
        out.append(dict(name="path_all_pairs_N%d" % n, kind="path", n=n, all_pairs=True))
    for n in range(2, (3 if tier == "quick" else 4) + 1):
        for deg in (False, True):
            out.append(dict(name="angle_consecutive_N%d_%s" % (n, "deg" if deg else "rad"), kind="angle", n=n, all_pairs=False, deg=deg))
            out.append(dict(name="angle_all_pairs_N%d_%s" % (n, "deg" if deg else "rad"), kind="angle", n=n, all_pairs=True, deg=deg))
    out.append(dict(name="angle_delta_out_of_range", kind="anglerange"))
    out.append(dict(name="unsupported_unit", kind="badunit"))
    return out


def run_case(case, col):
    if case["kind"] == "lemmas":
        from evoverif import lemmas
        return lemmas.lemma_case(col)
    globals()["run_" + case["kind"]](case, col)


def Fm():
    return common.S("evo.core.filters")


def Mm():
    return common.S("evo.core.metrics")


def Um():
    return common.S("evo.core.units")


def basic(pairs, n):
    return z3.BoolVal(all(isinstance(int(i), int) and 0 <= i < j < n for i, j in pairs))


# --------------------------------------------------------------------------
def run_frames(case, col):
    n = case["n"]
    Tj = SymTraj("a", n, stamps=False)

    def fn():
        poses = Tj.poses()
        out = {}
        for delta in range(1, n + 1):
            for allp in (False, True):
                try:
                    out[(delta, allp)] = [(int(i), int(j)) for i, j in Mm().id_pairs_from_delta(poses, delta, Um().Unit.frames, all_pairs=allp)]
                except Fm().FilterException:
                    out[(delta, allp)] = "refused"
        return out

    def on_ok(pr):
        g = {}
        for (delta, allp), got in pr.out.items():
            if allp:
                exp = [(i, i + delta) for i in range(n) if i + delta < n]
            else:
                ch = list(range(0, n, delta))
                exp = list(zip(ch, ch[1:]))
            g["frames_delta%d_%s" % (delta, "all" if allp else "chain")] = z3.BoolVal(got == exp if exp else got == "refused")
        runner.check_obligations(col, pr.ctx, g, Tj.inputs(), lambda v: replay_frames(n), descr="frames N=%d" % n)
    runner.explore_case(col, fn, Tj.assumptions(), on_ok, None, pins=common.pins_for(Tj))


def replay_frames(n):
    Mr, Ur, Fr = common.R("evo.core.metrics"), common.R("evo.core.units"), common.R("evo.core.filters")
    poses = [rnp.eye(4) for _ in range(n)]
    bad = []
    for delta in range(1, n + 1):
        for allp in (False, True):
            exp = [(i, i + delta) for i in range(n) if i + delta < n] if allp else list(zip(range(0, n, delta), list(range(0, n, delta))[1:]))
            try:
                got = [(int(i), int(j)) for i, j in Mr.id_pairs_from_delta(poses, delta, Ur.Unit.frames, all_pairs=allp)]
            except Fr.FilterException:
                got = "refused"
            if got != (exp if exp else "refused"):
                bad.append("delta %d all_pairs=%s: %r expected %r" % (delta, allp, got, exp))
    return bool(bad), "; ".join(bad[:3]) or "ok"


# --------------------------------------------------------------------------
# generic "accumulated measure" specification (path lengths / accumulated angles)
# --------------------------------------------------------------------------
def acc(steps, i, j):
    """measure travelled between pose i and j (sum of step atoms)"""
    t = z3.RealVal(0)
    for k in range(i, j):
        t = t + steps[k]
    return t


def consecutive_spec(pairs, steps, n, delta, start_at_zero):
    cl = {}
    cl["indices_valid_and_chain"] = z3.BoolVal(all(0 <= i < j < n for i, j in pairs)
                                               and all(pairs[k + 1][0] == pairs[k][1] for k in range(len(pairs) - 1)))
    firsts, reach = [], []
    for (i, j) in pairs:
        reach.append(acc(steps, i, j) >= delta)
        firsts += [acc(steps, i, jj) < delta for jj in range(i + 1, j)]
    cl["end_pose_reaches_delta"] = z3.And(reach) if reach else z3.BoolVal(True)
    cl["end_pose_is_the_first_that_reaches_delta"] = z3.And(firsts) if firsts else z3.BoolVal(True)
    if pairs:
        a0 = pairs[0][0]
        # a0 no later than the first pose that reaches delta from the beginning: nothing strictly before a0 reaches it
        cl["starts_no_later_than_first_reach_from_beginning"] = z3.And([acc(steps, 0, jj) < delta for jj in range(1, a0)]) \
            if a0 > 1 else z3.BoolVal(True)
        if start_at_zero:
            cl["chain_starts_at_pose_0"] = z3.BoolVal(a0 == 0)
        last = pairs[-1][1]
        cl["continues_until_rest_no_longer_reaches_delta"] = z3.And([acc(steps, last, jj) < delta for jj in range(last + 1, n)]) \
            if last + 1 < n else z3.BoolVal(True)
    return cl


def no_pair_possible_consecutive(steps, n, delta, start_at_zero):
    """no chain pair exists: from the chain start the delta is never reached"""
    if start_at_zero:
        return z3.And([acc(steps, 0, j) < delta for j in range(1, n)]) if n > 1 else z3.BoolVal(True)
    # start = first pose f with acc(0..f) >= delta (f may be 0 only if delta <= 0): no j > f reaching delta from f
    alts = [z3.And([acc(steps, 0, j) < delta for j in range(1, n)])]
    for f in range(1, n):
        isf = z3.And([acc(steps, 0, f) >= delta] + [acc(steps, 0, j) < delta for j in range(1, f)])
        alts.append(z3.And([isf] + [acc(steps, f, j) < delta for j in range(f + 1, n)]))
    return z3.Or(alts)


def step_atoms(Tj, n):
    out = []
    for i in range(n - 1):
        rad = sum((Tj.p[i + 1][a] - Tj.p[i][a]) * (Tj.p[i + 1][a] - Tj.p[i][a]) for a in range(3))
        out.append(toz(sc.sym_sqrt(sc.mk(rad))))
    return out


def conc_steps(P):
    return [float(rnp.linalg.norm(P[i + 1] - P[i])) for i in range(len(P) - 1)]


def conc_consecutive_ok(pairs, st, n, delta, start_zero):
    def a(i, j):
        return sum(st[i:j])
    bad = []
    exact = all(float(x * 64).is_integer() for x in st + [delta])
    tol = 0.0 if exact else 1e-9 * max(1.0, sum(st))
    if not all(0 <= i < j < n for i, j in pairs) or any(pairs[k + 1][0] != pairs[k][1] for k in range(len(pairs) - 1)):
        return ["invalid indices / not a chain: %r" % (pairs,)]
    for (i, j) in pairs:
        if a(i, j) < delta - tol:
            bad.append("pair (%d,%d) does not reach delta" % (i, j))
        if any(a(i, jj) >= delta + tol for jj in range(i + 1, j)):
            bad.append("pair (%d,%d): an earlier pose already reaches delta" % (i, j))
    if pairs:
        a0, last = pairs[0][0], pairs[-1][1]
        if any(a(0, jj) >= delta + tol for jj in range(1, a0)):
            bad.append("chain starts after the first reach from the beginning")
        if start_zero and a0 != 0:
            bad.append("chain does not start at pose 0")
        if any(a(last, jj) >= delta + tol for jj in range(last + 1, n)):
            bad.append("chain stops although the rest still reaches delta")
    return bad


def run_path(case, col):
    n, allp = case["n"], case["all_pairs"]
    Tj = SymTraj("a", n, stamps=False)
    zd, zt = z3.Real("delta"), z3.Real("rel_tol")
    inputs = dict(Tj.inputs(), delta=zd, rel_tol=zt)
    assume = Tj.assumptions() + [zd > 0, zt >= 0, zt <= 2]

    def fn():
        return [(int(i), int(j)) for i, j in Mm().id_pairs_from_delta(Tj.poses(), SymReal(zd), Um().Unit.meters, SymReal(zt), all_pairs=allp)]

    def replay(vals):
        Mr, Ur, Fr = common.R("evo.core.metrics"), common.R("evo.core.units"), common.R("evo.core.filters")
        t = Tj.concrete(vals, "se3")
        d, rt = float(vals["delta"]), float(vals["rel_tol"])
        st = conc_steps(t.positions_xyz)
        try:
            pairs = [(int(i), int(j)) for i, j in Mr.id_pairs_from_delta(t.poses_se3, d, Ur.Unit.meters, rt, all_pairs=allp)]
        except Fr.FilterException:
            pairs = None
        return oracle_path(pairs, st, n, d, d * rt, allp)

    def hook(ctx, query):
        """the selection depends on the step lengths only: solve the linear skeleton (sqrt atoms as free
        non-negative values, dyadic) and realise it by a collinear trajectory -> exact in binary64"""
        steps = step_atoms(Tj, n)
        dy = []
        for k, a in enumerate(steps + [zd, zt]):
            kk = z3.Int("dyw!%d" % k)
            dy += [z3.ToReal(kk) == a * 64, kk >= 0, kk <= 64 * 64]
        r, m = ctx.solve(list(query) + dy, kind="dyadic", full=True, groups=(), timeout_ms=15000)
        if r != "sat":
            return []
        vals = {}
        x = Fraction(0)
        for i in range(n):
            if i > 0:
                x += sc.zval_to_fraction(m.eval(steps[i - 1], model_completion=True))
            vals.update({"a_p%dx" % i: x, "a_p%dy" % i: Fraction(0), "a_p%dz" % i: Fraction(0), "a_q%dw" % i: Fraction(1),
                         "a_q%dx" % i: Fraction(0), "a_q%dy" % i: Fraction(0), "a_q%dz" % i: Fraction(0)})
        vals["delta"] = sc.zval_to_fraction(m.eval(zd, model_completion=True))
        vals["rel_tol"] = sc.zval_to_fraction(m.eval(zt, model_completion=True))
        return [vals]

    def on_ok(pr):
        pairs = pr.out
        steps = step_atoms(Tj, n)
        tol = zd * zt
        if not allp:
            g = consecutive_spec(pairs, steps, n, zd, start_at_zero=False)
            g["not_empty"] = z3.BoolVal(len(pairs) > 0)
        else:
            g = allpairs_spec(pairs, steps, n, zd, tol)
        runner.check_obligations(col, pr.ctx, g, inputs, replay, descr=case["name"] + " pairs=%r" % (pairs,), timeout_ms=60000,
                                 witness_hook=hook)

    def on_exc(pr):
        if pr.status != "exc:FilterException":
            col.d["harness_errors"].append(dict(ob="path", why="unexpected %s: %s" % (pr.status, pr.exc)))
            return
        steps = step_atoms(Tj, n)
        if not allp:
            goal = no_pair_possible_consecutive(steps, n, zd, False)
        else:
            goal = z3.And([zabs(acc(steps, i, j) - zd) > zd * zt for i in range(n) for j in range(i + 1, n)]) if n > 1 else z3.BoolVal(True)
        runner.check_obligations(col, pr.ctx, {"filter_error_only_if_no_pair_exists": goal}, inputs, replay, descr=case["name"] + " refusal",
                                 timeout_ms=60000, witness_hook=hook)

    runner.explore_case(col, fn, assume, on_ok, on_exc, timeout_ms=60000, pins=common.pins_for(Tj), max_paths=6000)


def zabs(x):
    return z3.If(x >= 0, x, -x)


def allpairs_spec(pairs, steps, n, delta, tol):
    cl = {}
    cl["indices_valid"] = z3.BoolVal(all(0 <= i < j < n for i, j in pairs))
    starts = [i for i, _ in pairs]
    cl["every_start_reported_once_in_order"] = z3.BoolVal(starts == sorted(set(starts)))
    within, closest = [], []
    for (i, j) in pairs:
        dij = zabs(acc(steps, i, j) - delta)
        within.append(dij <= tol)
        closest += [dij <= zabs(acc(steps, i, jj) - delta) for jj in range(i + 1, n)]
    cl["pair_within_tolerance"] = z3.And(within) if within else z3.BoolVal(True)
    cl["end_pose_is_the_closest_to_delta"] = z3.And(closest) if closest else z3.BoolVal(True)
    missing = []
    for i in range(n - 1):
        if i not in starts:
            # i is not reported: then no j qualifies as closest-within-tolerance
            missing += [z3.Not(z3.And([zabs(acc(steps, i, j) - delta) <= tol] +
                                      [zabs(acc(steps, i, j) - delta) <= zabs(acc(steps, i, jj) - delta) for jj in range(i + 1, n)]))
                        for j in range(i + 1, n)]
    cl["every_start_with_a_qualifying_end_is_reported"] = z3.And(missing) if missing else z3.BoolVal(True)
    return cl


def oracle_path(pairs, st, n, d, tol, allp):
    exact = all(float(x * 64).is_integer() for x in st + [d]) and float(tol * 4096).is_integer()
    eps = 0.0 if exact else 1e-9 * max(1.0, sum(st))

    def a(i, j):
        return sum(st[i:j])
    if pairs is None:
        if allp:
            ok = all(abs(a(i, j) - d) > tol - eps for i in range(n) for j in range(i + 1, n))
            return (not ok), "FilterException although a pair within tolerance exists" if not ok else "refused"
        # consecutive: exists chain pair?
        f = next((j for j in range(1, n) if a(0, j) >= d + eps), None)
        has = f is not None and any(a(f, j) >= d + eps for j in range(f + 1, n))
        return has, "FilterException although a chain pair exists" if has else "refused"
    bad = []
    if not allp:
        bad = conc_consecutive_ok(pairs, st, n, d, False)
        if not pairs:
            bad.append("empty list returned")
    else:
        starts = [i for i, _ in pairs]
        if starts != sorted(set(starts)):
            bad.append("start reported twice / out of order")
        for (i, j) in pairs:
            if not (0 <= i < j < n):
                bad.append("invalid pair")
                continue
            dij = abs(a(i, j) - d)
            if dij > tol + eps:
                bad.append("pair (%d,%d) outside tolerance" % (i, j))
            if any(abs(a(i, jj) - d) < dij - eps for jj in range(i + 1, n)):
                bad.append("pair (%d,%d): another end pose is closer to delta" % (i, j))
        for i in range(n - 1):
            if i not in starts:
                best = min(abs(a(i, jj) - d) for jj in range(i + 1, n))
                if best < tol - eps:
                    bad.append("start %d has a qualifying end pose but is not reported" % i)
    return bool(bad), "; ".join(bad[:3]) or "ok"


# --------------------------------------------------------------------------
def angle_atoms_consecutive(Tj, n):
    out = []
    for i in range(n - 1):
        tr = sum(sum(zR(Tj.q[i])[k][a] * zR(Tj.q[i + 1])[k][a] for k in range(3)) for a in range(3))
        out.append(stubs.ACOS((tr - 1) / 2))
    return out


def angle_between(Tj, i, j):
    tr = sum(sum(zR(Tj.q[i])[k][a] * zR(Tj.q[j])[k][a] for k in range(3)) for a in range(3))
    return stubs.ACOS((tr - 1) / 2)


def conc_angle(A, B):
    c = min(1.0, max(-1.0, (rnp.trace(A[:3, :3].T.dot(B[:3, :3])) - 1) / 2))
    return math.acos(c)


def run_angle(case, col):
    n, allp, deg = case["n"], case["all_pairs"], case["deg"]
    Tj = SymTraj("a", n, stamps=False)
    zd, zt = z3.Real("delta"), z3.Real("rel_tol")
    inputs = dict(Tj.inputs(), delta=zd, rel_tol=zt)
    hi = 180 if deg else stubs.PI
    assume = Tj.assumptions() + [zd > 0, zd <= sc.q_of(Fraction(hi)), zt >= 0, zt <= 1]
    unit = "degrees" if deg else "radians"
    k = sc.q_of(stubs.PI / 180) if deg else z3.RealVal(1)

    def fn():
        return [(int(i), int(j)) for i, j in Mm().id_pairs_from_delta(Tj.poses(), SymReal(zd), Um().Unit[unit], SymReal(zt), all_pairs=allp)]

    def replay(vals):
        Mr, Ur, Fr = common.R("evo.core.metrics"), common.R("evo.core.units"), common.R("evo.core.filters")
        t = Tj.concrete(vals, "se3")
        d, rt = float(vals["delta"]), float(vals["rel_tol"])
        try:
            pairs = [(int(i), int(j)) for i, j in Mr.id_pairs_from_delta(t.poses_se3, d, Ur.Unit[unit], rt, all_pairs=allp)]
        except Fr.FilterException:
            pairs = None
        dr = math.radians(d) if deg else d
        tolr = dr * rt
        P = t.poses_se3
        if not allp:
            st = [conc_angle(P[i], P[i + 1]) for i in range(n - 1)]
            if pairs is None:
                has = any(sum(st[:j]) >= dr + 1e-7 for j in range(1, n))
                return has, "FilterException although the accumulated rotation reaches delta" if has else "refused"
            bad = conc_consecutive_ok(pairs, st, n, dr, True)
            bad = [b for b in bad]            # band handled through tolerances inside
            return bool(bad), "; ".join(bad[:3]) or "ok"
        exp = [(i, j) for i in range(n) for j in range(i + 1, n) if dr - tolr + 1e-7 <= conc_angle(P[i], P[j]) <= dr + tolr - 1e-7]
        maybe = [(i, j) for i in range(n) for j in range(i + 1, n) if dr - tolr - 1e-7 <= conc_angle(P[i], P[j]) <= dr + tolr + 1e-7]
        if pairs is None:
            return bool(exp), "FilterException although pairs %r lie in the band" % (exp,) if exp else "refused"
        bad = []
        if any(p not in maybe for p in pairs):
            bad.append("pairs outside the band reported: %r" % ([p for p in pairs if p not in maybe],))
        if any(p not in pairs for p in exp):
            bad.append("pairs inside the band missing: %r" % ([p for p in exp if p not in pairs],))
        if sorted(pairs) != pairs or len(set(pairs)) != len(pairs):
            bad.append("pairs not in order / duplicated")
        return bool(bad), "; ".join(bad) or "ok"

    def hook(ctx, query):
        """witnesses on the quarter-turn grid: every pose a rotation about z by a multiple of pi/2, where the
        acos* anchors (cos in {1, 0, -1}) make the model's angles the true ones; thresholds off the grid"""
        fam = []
        for q in Tj.q:
            w, x, y, z = q
            fam += [x == 0, y == 0, z3.Or(z3.And(w == 1, z == 0), z3.And(2 * w * w == 1, w > 0, z == w),
                                          z3.And(w == 0, z == 1), z3.And(2 * w * w == 1, w < 0, z == -w))]
        out = []
        for extra in ([zt * 8 == 1], [zt * 2 == 1], []):
            r, m = ctx.solve(list(query) + fam + extra, kind="bughunt", full=True, timeout_ms=20000)
            if r == "sat":
                out.append(runner.model_values(m, inputs))
        return out

    def on_ok(pr):
        pairs = pr.out
        d = zd * k
        if not allp:
            g = consecutive_spec(pairs, angle_atoms_consecutive(Tj, n), n, d, start_at_zero=True)
            g["not_empty"] = z3.BoolVal(len(pairs) > 0)
        else:
            tol = d * zt
            g = {"indices_valid_sorted_unique": z3.BoolVal(all(0 <= i < j < n for i, j in pairs) and sorted(set(pairs)) == pairs)}
            inside, outside = [], []
            for i in range(n):
                for j in range(i + 1, n):
                    a = angle_between(Tj, i, j)
                    band = z3.And(d - tol <= a, a <= d + tol)
                    (inside if (i, j) in pairs else outside).append(band if (i, j) in pairs else z3.Not(band))
            g["reported_pairs_lie_in_the_band"] = z3.And(inside) if inside else z3.BoolVal(True)
            g["no_pair_in_the_band_is_missing"] = z3.And(outside) if outside else z3.BoolVal(True)
        runner.check_obligations(col, pr.ctx, g, inputs, replay, descr=case["name"] + " pairs=%r" % (pairs,), timeout_ms=60000,
                                 witness_hook=hook)

    def on_exc(pr):
        if pr.status != "exc:FilterException":
            col.d["harness_errors"].append(dict(ob="path", why="unexpected %s: %s" % (pr.status, pr.exc)))
            return
        d = zd * k
        if not allp:
            goal = no_pair_possible_consecutive(angle_atoms_consecutive(Tj, n), n, d, True)
        else:
            goal = z3.And([z3.Not(z3.And(d - d * zt <= angle_between(Tj, i, j), angle_between(Tj, i, j) <= d + d * zt))
                           for i in range(n) for j in range(i + 1, n)])
        runner.check_obligations(col, pr.ctx, {"filter_error_only_if_no_pair_exists": goal}, inputs, replay,
                                 descr=case["name"] + " refusal", timeout_ms=60000, witness_hook=hook)

    runner.explore_case(col, fn, assume, on_ok, on_exc, timeout_ms=60000, pins=common.pins_for(Tj), max_paths=6000)


def run_anglerange(case, col):
    Tj = SymTraj("a", 2, stamps=False)
    zd = z3.Real("delta")
    for deg in (False, True):
        hi = 180 if deg else stubs.PI

        def fn(deg=deg):
            return Fm().filter_pairs_by_angle(Tj.poses(), SymReal(zd), 0, deg, False)

        def rp(vals, deg=deg):
            Fr = common.R("evo.core.filters")
            t = Tj.concrete(vals, "se3")
            try:
                Fr.filter_pairs_by_angle(t.poses_se3, float(vals["delta"]), 0.0, deg, False)
            except Fr.FilterException:
                return False, "refused"
            return True, "delta %r outside [0, %s] accepted" % (float(vals["delta"]), "180" if deg else "pi")

        def on_ok(pr, rp=rp, deg=deg):
            runner.check_obligations(col, pr.ctx, {"angle_delta_outside_range_refused_%s" % ("deg" if deg else "rad"): z3.BoolVal(False)},
                                     dict(Tj.inputs(), delta=zd), rp)

        def on_exc(pr, rp=rp, deg=deg):
            runner.check_obligations(col, pr.ctx, {"angle_delta_outside_range_refused_%s" % ("deg" if deg else "rad"):
                                                   z3.BoolVal(pr.status == "exc:FilterException")}, dict(Tj.inputs(), delta=zd), rp)
        runner.explore_case(col, fn, Tj.assumptions() + [z3.Or(zd < 0, zd > sc.q_of(Fraction(hi)))], on_ok, on_exc, pins=common.pins_for(Tj))


def run_badunit(case, col):
    Tj = SymTraj("a", 2, stamps=False)

    def fn():
        return Mm().id_pairs_from_delta(Tj.poses(), 1, Um().Unit.seconds)

    def on_ok(pr):
        runner.check_obligations(col, pr.ctx, dict(unsupported_unit_refused=z3.BoolVal(False)), Tj.inputs(), lambda v: (True, "accepted"))

    def on_exc(pr):
        runner.check_obligations(col, pr.ctx, dict(unsupported_unit_refused=z3.BoolVal(pr.status == "exc:FilterException")), Tj.inputs(),
                                 lambda v: (True, "wrong exception"))
    runner.explore_case(col, fn, Tj.assumptions(), on_ok, on_exc, pins=common.pins_for(Tj))


def replay_file(rec):
    return False, "re-run ./check C10"
