"""C14 -- plane projection puts every pose into the plane and leaves planar poses unchanged.

Real functions executed: PosePath3D.project, transformations.euler_from_matrix ('sxyz', both cy branches),
lie_algebra.so3_exp (Rodrigues about a coordinate axis), with math.atan2 returning angle objects (cos, sin).
"""
from fractions import Fraction

import numpy as rnp
import z3

from evoverif import runner, symcore as sc, symnp, symrot, stubs
from evoverif.symcore import SymReal, toz
from . import common
from .common import SymTraj, zR, zT, zmat_mul

PROPERTY = "C14"
FUNCTIONS = ["trajectory.PosePath3D.project", "transformations.euler_from_matrix", "lie_algebra.so3_exp",
             "PosePath3D.positions_xyz / orientations_quat_wxyz after projection (cache flush)"]
BOUNDS = {"quick": "N <= 2 poses, the three planes, general poses R(q) and planar poses (c, s) with c^2 + s^2 = 1 (every heading)",
          "thorough": "N <= 3"}
STUBS = ["math.atan2(y, x): angle object (cos, sin) with cos*h = x, sin*h = y, h = sqrt(x^2+y^2) (and (1,0) for h = 0)",
         "Rotation.from_rotvec(axis*angle).as_matrix(): exact Rodrigues matrix for a coordinate axis", "sqrt stub", "eigh stub"]
ASSUMPTIONS = ["unit quaternions / c^2 + s^2 = 1"]
OUTSIDE = ["the sign of a zero (atan2(+-0, x))", "rounding near gimbal lock (cy within 4 eps of 0 is the code's own branch and is decided)"]

PLANES = {"xy": 2, "xz": 1, "yz": 0}


def worker_init():
    common.ensure_loaded()


def cases(tier, seed):
    out = [dict(name="rotation_lemmas", kind="lemmas")]
    ns = [1, 2] if tier == "quick" else [1, 2, 3]
    for pl in PLANES:
        for mode in ("se3", "quat"):
            for n in ns:
                out.append(dict(name="general_%s_%s_N%d" % (pl, mode, n), kind="general", plane=pl, mode=mode, n=n))
        out.append(dict(name="planar_%s" % pl, kind="planar", plane=pl, n=1))
        out.append(dict(name="planar_%s_N2" % pl, kind="planar", plane=pl, n=2))
        for pl2 in PLANES:
            out.append(dict(name="second_projection_refused_%s_then_%s" % (pl, pl2), kind="twice", plane=pl, plane2=pl2))
    return out


def run_case(case, col):
    if case["kind"] == "lemmas":
        from evoverif import lemmas
        return lemmas.lemma_case(col)
    globals()["run_" + case["kind"]](case, col)


def T():
    return common.S("evo.core.trajectory")


def plane_enum(mod, pl):
    return {"xy": mod.Plane.XY, "xz": mod.Plane.XZ, "yz": mod.Plane.YZ}[pl]


def oracle_projected(P_before, P_after, k, tol=1e-8):
    """concrete oracle for one pose: k = index of the normal axis"""
    bad = []
    o = [a for a in range(3) if a != k]
    if abs(P_after[k, 3]) > tol:
        bad.append("out-of-plane coordinate %r" % P_after[k, 3])
    if not rnp.allclose(P_after[o, 3], P_before[o, 3], atol=tol * max(1.0, float(rnp.abs(P_before).max()))):
        bad.append("in-plane coordinates changed")
    Rm = P_after[:3, :3]
    if abs(Rm[k, k] - 1) > tol or any(abs(Rm[k, a]) > tol or abs(Rm[a, k]) > tol for a in o):
        bad.append("orientation is not a pure rotation about the plane normal")
    if not rnp.allclose(Rm.T.dot(Rm), rnp.eye(3), atol=1e-7) or abs(rnp.linalg.det(Rm) - 1) > 1e-7 or list(P_after[3]) != [0, 0, 0, 1]:
        bad.append("not a valid rigid-body pose")
    return bad


def run_general(case, col):
    pl, mode, n = case["plane"], case["mode"], case["n"]
    k = PLANES[pl]
    o = [a for a in range(3) if a != k]
    Tj = SymTraj("a", n)
    inputs = Tj.inputs()

    def fn():
        t = Tj.build(mode)
        if mode == "quat":
            t.positions_xyz            # views cached before projection must be flushed
            t.orientations_quat_wxyz
        t.project(plane_enum(T(), pl))
        return t

    def replay(vals):
        Tr = common.R("evo.core.trajectory")
        t = Tj.concrete(vals, mode)
        before = [p.copy() for p in Tj.concrete(vals, "se3").poses_se3]
        ts = t.timestamps.copy()
        t.project(plane_enum(Tr, pl))
        bad = []
        if t.num_poses != n or len(t.positions_xyz) != n or len(t.timestamps) != n or not rnp.array_equal(ts, t.timestamps):
            bad.append("count / timestamps changed")
        for i in range(min(n, t.num_poses)):
            bad += oracle_projected(before[i], t.poses_se3[i], k)
            if not rnp.allclose(t.positions_xyz[i], t.poses_se3[i][:3, 3], atol=1e-9):
                bad.append("positions view not updated")
        return bool(bad), "; ".join(bad[:4]) or "ok"

    def on_ok(pr):
        t = pr.out
        poses, pos, quat = t.poses_se3, t.positions_xyz, t.orientations_quat_wxyz
        g = {"count_order_timestamps_unchanged": z3.BoolVal(
            len(poses) == n and len(pos) == n and len(quat) == n and t.num_poses == n and common.same_terms(
                t.timestamps, [SymReal(x) for x in Tj.t]))}
        if len(poses) == n and len(pos) == n and len(quat) == n:
            zc, ip, rot, val, views = [], [], [], [], []
            for i in range(n):
                P = poses[i]
                zc.append(toz(P[k, 3]) == 0)
                ip += [toz(P[a, 3]) == Tj.p[i][a] for a in o]
                rot.append(toz(P[k, k]) == 1)
                rot += [toz(P[k, a]) == 0 for a in o] + [toz(P[a, k]) == 0 for a in o]
                Pz = [[toz(P[a, b]) for b in range(3)] for a in range(3)]
                RtR = zmat_mul(zT(Pz), Pz)
                val += [RtR[a][b] == (1 if a == b else 0) for a in range(3) for b in range(3)]
                val += [toz(P[3, b]) == (1 if b == 3 else 0) for b in range(4)]
                det = (Pz[0][0] * (Pz[1][1] * Pz[2][2] - Pz[1][2] * Pz[2][1]) - Pz[0][1] * (Pz[1][0] * Pz[2][2] - Pz[1][2] * Pz[2][0])
                       + Pz[0][2] * (Pz[1][0] * Pz[2][1] - Pz[1][1] * Pz[2][0]))
                val.append(det == 1)
                views += [toz(pos[i][a]) == toz(P[a, 3]) for a in range(3)]
                Rq = zR([toz(quat[i][c]) for c in range(4)])
                views += [Rq[a][b] == Pz[a][b] for a in range(3) for b in range(3)]
            g["out_of_plane_coordinate_is_zero"] = z3.And(zc)
            g["in_plane_coordinates_unchanged"] = z3.And(ip)
            g["orientation_is_pure_rotation_about_the_normal"] = z3.And(rot)
            g["still_a_valid_rigid_body_pose"] = z3.And(val)
            g["positions_and_quaternion_views_follow_the_projected_matrices"] = z3.And(views)
        runner.check_obligations(col, pr.ctx, g, inputs, replay, descr=case["name"], timeout_ms=90000)

    runner.explore_case(col, fn, Tj.assumptions(), on_ok, None, timeout_ms=90000, pins=common.pins_for(Tj), must_reach=("ok",))


def planar_pose(k, c, s, p):
    """rotation by (c, s) about axis k, position p (with p[k] = 0), right-handed"""
    M = [[0] * 4 for _ in range(4)]
    i, j = (k + 1) % 3, (k + 2) % 3
    M[k][k] = 1
    M[i][i] = c
    M[j][j] = c
    M[i][j] = -s
    M[j][i] = s
    for a in range(3):
        M[a][3] = p[a]
    M[3][3] = 1
    return M


def run_planar(case, col):
    pl, n = case["plane"], case["n"]
    k = PLANES[pl]
    cs = [(z3.Real("c%d" % i), z3.Real("s%d" % i)) for i in range(n)]
    ps = [[z3.Real("p%d%s" % (i, a)) for a in "xyz"] for i in range(n)]
    inputs = {}
    assume = []
    for i in range(n):
        inputs.update({str(cs[i][0]): cs[i][0], str(cs[i][1]): cs[i][1]})
        inputs.update({str(v): v for v in ps[i]})
        assume += [cs[i][0] * cs[i][0] + cs[i][1] * cs[i][1] == 1, ps[i][k] == 0]
    known = runner.load_known(PROPERTY)
    kpred = {}
    if pl == "xz" and "project.xz_heading_beyond_90deg" in known:
        kpred["project.xz_heading_beyond_90deg"] = z3.Or([c < 0 for c, _ in cs])

    def build(mod, vals=None):
        poses = []
        for i in range(n):
            if vals is None:
                M = planar_pose(k, SymReal(cs[i][0]), SymReal(cs[i][1]), [SymReal(v) for v in ps[i]])
                poses.append(symnp.array(M))
            else:
                c, s = float(vals[str(cs[i][0])]), float(vals[str(cs[i][1])])
                nrm = (c * c + s * s) ** 0.5 or 1.0
                M = planar_pose(k, c / nrm, s / nrm, [float(vals[str(v)]) for v in ps[i]])
                M[k][3] = 0.0
                poses.append(rnp.array(M, dtype=float))
        return mod.PosePath3D(poses_se3=poses)

    def fn():
        t = build(T())
        t.project(plane_enum(T(), pl))
        return t

    def replay(vals):
        Tr = common.R("evo.core.trajectory")
        t = build(Tr, vals)
        before = [p.copy() for p in t.poses_se3]
        t.project(plane_enum(Tr, pl))
        bad = []
        for i in range(n):
            if not rnp.allclose(t.poses_se3[i], before[i], atol=1e-7 * max(1.0, float(rnp.abs(before[i]).max()))):
                bad.append("planar pose %d (heading cos=%.6g sin=%.6g) changed by the projection" % (
                    i, before[i][(k + 1) % 3, (k + 1) % 3], before[i][(k + 2) % 3, (k + 1) % 3]))
        return bool(bad), "; ".join(bad) or "ok"

    def on_ok(pr):
        t = pr.out
        eqs = []
        for i in range(n):
            M = planar_pose(k, cs[i][0], cs[i][1], ps[i])
            eqs += [toz(t.poses_se3[i][a, b]) == (M[a][b] if z3.is_expr(M[a][b]) else sc.q_of(Fraction(M[a][b])))
                    for a in range(4) for b in range(4)]
        g = {"planar_pose_left_unchanged": z3.And(eqs), "count_unchanged": z3.BoolVal(t.num_poses == n)}
        runner.check_obligations(col, pr.ctx, g, inputs, replay, known=kpred, descr=case["name"], timeout_ms=60000)

    runner.explore_case(col, fn, assume, on_ok, None, timeout_ms=60000, must_reach=("ok",))


def run_twice(case, col):
    pl, pl2 = case["plane"], case["plane2"]
    Tj = SymTraj("a", 1, stamps=False)

    def fn():
        t = Tj.build("se3")
        t.project(plane_enum(T(), pl))
        snap = [rnp.asarray(p).copy() for p in t.poses_se3]
        try:
            t.project(plane_enum(T(), pl2))
        except T().TrajectoryException:
            return True, t, snap
        return False, t, snap

    def replay(vals):
        Tr = common.R("evo.core.trajectory")
        t = Tj.concrete(vals, "se3")
        t.project(plane_enum(Tr, pl))
        try:
            t.project(plane_enum(Tr, pl2))
        except Tr.TrajectoryException:
            return False, "refused"
        return True, "second projection (%s after %s) was not refused" % (pl2, pl)

    def on_ok(pr):
        refused, t, snap = pr.out
        g = {"second_projection_refused": z3.BoolVal(refused),
             "object_unchanged_by_the_refused_call": z3.BoolVal(all(common.same_terms(a, b) for a, b in zip(t.poses_se3, snap)))}
        runner.check_obligations(col, pr.ctx, g, Tj.inputs(), replay, descr=case["name"])
    runner.explore_case(col, fn, Tj.assumptions(), on_ok, None, pins=common.pins_for(Tj), must_reach=("ok",))


def replay_file(rec):
    return False, "re-run ./check C14"
