"""C04 -- trajectory alignment applies exactly the returned transform.

Real functions executed: PosePath3D.align / align_origin / scale / transform,
geometry.umeyama_alignment (SVD contract stub), lie_algebra.se3/sim3/se3_inverse,
main_ape.ape and main_rpe.rpe (recorded alignment matrix).
"""
from fractions import Fraction
import copy

import numpy as rnp
import z3

from evoverif import runner, symcore as sc, symnp, symrot, stubs
from evoverif.symcore import SymReal, toz
from . import common
from .common import SymTraj, zR, zT, zmat_mul, zmat_vec
from .c01 import zpose, zinv
from .c03 import zcov, svd_pins, poison_scale_path_is_infeasible

PROPERTY = "C04"
FUNCTIONS = ["trajectory.PosePath3D.align", "PosePath3D.align_origin", "PosePath3D.scale", "PosePath3D.transform",
             "geometry.umeyama_alignment", "lie_algebra.se3", "lie_algebra.sim3", "se3_inverse",
             "main_ape.ape (alignment wiring)", "main_rpe.rpe (alignment wiring)",
             "trajectory.se3_poses_to_xyz_quat_wxyz", "transformations.quaternion_from_matrix (eigh stub)"]
BOUNDS = {"quick": "N = 2..3 poses, n in {-1, 2}, modes rigid / similarity / scale-only / origin, both storage modes",
          "thorough": "N = 2..4, n in {-1, 2, 3}"}
STUBS = ["numpy.linalg.svd contract stub (see C03)", "eigh stub in quaternion_from_matrix", "sqrt stub"]
ASSUMPTIONS = ["unit quaternions; SVD contract"]
OUTSIDE = ["RMSE never worse / optimal / idempotent re-alignment (rest on SVD optimality, trusted -- see C03)"]
MODS = ("evo.main_ape", "evo.main_rpe")

MODES = {"rigid": dict(correct_scale=False, correct_only_scale=False),
         "sim": dict(correct_scale=True, correct_only_scale=False),
         "scale_only": dict(correct_scale=False, correct_only_scale=True)}


def worker_init():
    common.ensure_loaded(MODS)


def cases(tier, seed):
    out = [dict(name="rotation_lemmas", kind="lemmas")]
    # N = 2 positions always give a rank-1 covariance (refused); alignment proper needs N >= 3
    cfg = [(3, -1)] if tier == "quick" else [(3, -1), (4, -1), (4, 3)]
    for (N, n) in cfg:
        for mode in MODES:
            for st in ("se3", "quat"):
                out.append(dict(name="align_%s_%s_N%d_n%d" % (mode, st, N, n), kind="align", mode=mode, st=st, N=N, n=n))
    if tier == "quick":
        out.append(dict(name="align_rigid_se3_N4_n3", kind="align", mode="rigid", st="se3", N=4, n=3))
    out.append(dict(name="align_rigid_se3_N2_refused", kind="align", mode="rigid", st="se3", N=2, n=-1))
    for N in ([2, 3] if tier == "quick" else [2, 3, 4]):
        for st in ("se3", "quat"):
            out.append(dict(name="align_origin_%s_N%d" % (st, N), kind="origin", st=st, N=N))
    # option wiring with Umeyama replaced by its contract (no SVD reasoning): all four flag combinations
    for fl in FLAGS:
        for st in ("se3", "quat"):
            for n in ((-1, 2) if tier == "quick" else (-1, 2, 3)):
                out.append(dict(name="align_wiring_%s_%s_N3_n%d" % (fl, st, n), kind="wiring", fl=fl, st=st, N=3, n=n))
    for fn_ in ("ape", "rpe"):
        for m in ("align", "align_scale", "scale_only"):
            out.append(dict(name="%s_recorded_matrix_%s_umeyama_contract" % (fn_, m), kind="recorded", fn=fn_, m=m, N=3, contract=True))
    for fn_ in ("ape", "rpe"):
        for m in ("align", "align_scale", "scale_only", "origin"):
            if tier == "quick" and fn_ == "ape" and m in ("align", "align_scale"):
                continue          # same wiring as rpe's; the ape variants (slower: distance arrays) run in the thorough tier
            out.append(dict(name="%s_recorded_matrix_%s" % (fn_, m), kind="recorded", fn=fn_, m=m, N=3))
    return out


def run_case(case, col):
    k = case["kind"]
    if k == "lemmas":
        from evoverif import lemmas
        return lemmas.lemma_case(col)
    globals()["run_" + k](case, col)


def zz(x):
    return x if z3.is_expr(x) else sc.q_of(Fraction(x))


def snapshot(t):
    d = {}
    for k in ("_positions_xyz", "_orientations_quat_wxyz", "timestamps"):
        if hasattr(t, k):
            d[k] = rnp.asarray(getattr(t, k)).copy()
    if hasattr(t, "_poses_se3"):
        d["_poses_se3"] = [rnp.asarray(p).copy() for p in t._poses_se3]
    return d


def unchanged(t, snap):
    for k, v in snap.items():
        cur = getattr(t, k, None)
        if cur is None:
            return False
        if k == "_poses_se3":
            if len(cur) != len(v) or not all(common.same_terms(a, b) for a, b in zip(cur, v)):
                return False
        elif not common.same_terms(cur, v):
            return False
    return True


def pose_goals(est, Es, N, mode, rz, tz, sz):
    """every pose of est (all three representations) is the input pose moved in the given mode by (rz, tz, sz)"""
    g = {}
    pos, poses, quat = est.positions_xyz, est.poses_se3, est.orientations_quat_wxyz
    pe, pp, ro, qo = [], [], [], []
    for i in range(N):
        p = Es.p[i]
        if mode == "scale_only":
            exp = [sz * p[a] for a in range(3)]
            Rexp = zR(Es.q[i])
        else:
            rp = zmat_vec(rz, p)
            exp = [(sz * rp[a] if mode == "sim" else rp[a]) + tz[a] for a in range(3)]
            Rexp = zmat_mul(rz, zR(Es.q[i]))
        pe += [toz(pos[i][a]) == exp[a] for a in range(3)]
        pp += [toz(poses[i][a, 3]) == exp[a] for a in range(3)]
        ro += [toz(poses[i][a, b]) == Rexp[a][b] for a in range(3) for b in range(3)]
        ro += [toz(poses[i][3, b]) == (1 if b == 3 else 0) for b in range(4)]
        Rq = zR([toz(quat[i][k]) for k in range(4)])
        qo += [Rq[a][b] == Rexp[a][b] for a in range(3) for b in range(3)]
        qo.append(sum(toz(quat[i][k]) * toz(quat[i][k]) for k in range(4)) == 1)
    g["positions_moved_by_exactly_the_returned_transform"] = z3.And(pe)
    g["pose_matrix_translations_moved_by_exactly_the_returned_transform"] = z3.And(pp)
    g["pose_matrix_rotations_are_r_times_R"] = z3.And(ro)
    g["quaternions_describe_r_times_R"] = z3.And(qo)
    return g


def run_align(case, col):
    mode, st, N, n = case["mode"], case["st"], case["N"], case["n"]
    Rf, Es = SymTraj("r", N, stamps=False), SymTraj("e", N, stamps=False)
    inputs = dict(Rf.inputs(), **Es.inputs())
    kw = MODES[mode]
    used = N if n == -1 else n
    Xz = [[Es.p[i][a] for i in range(used)] for a in range(3)]
    Yz = [[Rf.p[i][a] for i in range(used)] for a in range(3)]
    state = {}

    def fn():
        sc.ctx().memo.pop("svd_calls", None)
        ref, est = Rf.build(st), Es.build(st)
        state["ref"], state["snap"] = ref, snapshot(ref)
        r, t, s = est.align(ref, n=n, **kw)
        return est, r, t, s

    def replay(vals):
        return replay_align(vals, Rf, Es, st, n, kw)

    def on_ok(pr):
        est, r, t, s = pr.out
        ctx = pr.ctx
        g = {}
        calls = ctx.memo.get("svd_calls", [])
        g["one_svd_call"] = z3.BoolVal(len(calls) == 1)
        if len(calls) == 1:
            C = zcov(Xz, Yz)
            g["transform_determined_from_the_first_n_pairs_only"] = z3.And(
                [toz(calls[0]["A"][a, b]) == C[a][b] for a in range(3) for b in range(3)])
        if s is sc.POISON:
            runner.check_obligations(col, ctx, g, inputs, replay, descr=case["name"])
            if len(calls) == 1:
                poison_scale_path_is_infeasible(col, ctx, calls[0], inputs, replay, case["name"] + " (zero variance path)")
            return
        rz = [[toz(r[a, b]) for b in range(3)] for a in range(3)]
        tz = [toz(v) for v in t]
        sz = toz(s)
        with_scale = kw["correct_scale"] or kw["correct_only_scale"]
        if not with_scale:
            g["scale_is_one_without_scale_correction"] = z3.BoolVal(not isinstance(s, SymReal) and s == 1)
        g["count_unchanged"] = z3.BoolVal(est.num_poses == N and len(est.positions_xyz) == N and len(est.poses_se3) == N
                                          and len(est.orientations_quat_wxyz) == N)
        if est.num_poses == N:
            g.update(pose_goals(est, Es, N, mode, rz, tz, sz))
        g["reference_unchanged"] = z3.BoolVal(unchanged(state["ref"], state["snap"]))
        runner.check_obligations(col, ctx, g, inputs, replay, descr=case["name"], timeout_ms=90000)

    def on_exc(pr):
        if pr.status != "exc:GeometryException":
            col.d["harness_errors"].append(dict(ob="path", why="unexpected %s: %s" % (pr.status, pr.exc)))
            return
        calls = pr.ctx.memo.get("svd_calls", [])
        g = {"refused_only_for_degenerate_positions": (calls[0]["d"][1] <= sc.q_of(Fraction(2) ** -52)) if calls else z3.BoolVal(False),
             "reference_unchanged": z3.BoolVal(unchanged(state["ref"], state["snap"]))}
        runner.check_obligations(col, pr.ctx, g, inputs, replay, descr=case["name"] + " refusal")

    runner.explore_case(col, fn, Rf.assumptions() + Es.assumptions(), on_ok, on_exc, timeout_ms=90000,
                        must_reach=(("ok",) if used >= 3 else ()), pins=svd_pins(Xz, Yz))


def replay_align(vals, Rf, Es, st, n, kw):
    ref, est = Rf.concrete(vals, st), Es.concrete(vals, st)
    ref0, est0 = Rf.concrete(vals, st), Es.concrete(vals, st)
    G = common.R("evo.core.geometry")
    bad = []
    try:
        r, t, s = est.align(ref, n=n, **kw)
    except G.GeometryException:
        return False, "refused (degenerate)"
    N = est0.num_poses
    P0 = est0.positions_xyz
    if kw["correct_only_scale"]:
        exp = s * P0
        Rexp = [p[:3, :3] for p in est0.poses_se3]
    else:
        exp = (s * r.dot(P0.T)).T + t if kw["correct_scale"] else r.dot(P0.T).T + t
        Rexp = [r.dot(p[:3, :3]) for p in est0.poses_se3]
    m = max(1.0, float(rnp.abs(exp).max()))
    if not rnp.allclose(est.positions_xyz, exp, atol=1e-8 * m):
        bad.append("positions are not s*r*p+t of the returned transform")
    for i in range(N):
        if not rnp.allclose(est.poses_se3[i][:3, 3], exp[i], atol=1e-8 * m):
            bad.append("pose matrix %d translation differs" % i)
        if not rnp.allclose(est.poses_se3[i][:3, :3], Rexp[i], atol=1e-8):
            bad.append("pose matrix %d rotation is not r*R" % i)
        tr = common.R("evo.core.transformations")
        if not rnp.allclose(tr.quaternion_matrix(est.orientations_quat_wxyz[i])[:3, :3], Rexp[i], atol=1e-7):
            bad.append("quaternion %d does not describe r*R" % i)
    if not (kw["correct_scale"] or kw["correct_only_scale"]) and s != 1.0:
        bad.append("scale %r without scale correction" % s)
    if not (rnp.array_equal(ref.positions_xyz, ref0.positions_xyz) and all(rnp.array_equal(a, b) for a, b in zip(ref.poses_se3, ref0.poses_se3))):
        bad.append("reference modified")
    # only the first n pairs determine the transform
    if n != -1:
        e2, r2 = Es.concrete(vals, st), Rf.concrete(vals, st)
        e2.reduce_to_ids(list(range(n)))
        r2.reduce_to_ids(list(range(n)))
        try:
            rr, tt, ss = e2.align(r2, **kw)
            if not (rnp.allclose(rr, r, atol=1e-7) and rnp.allclose(tt, t, atol=1e-7 * m) and abs(ss - s) < 1e-7 * max(1, abs(s))):
                bad.append("transform is not the one of the first n pairs")
        except G.GeometryException:
            pass
    return bool(bad), "; ".join(bad[:4]) or "ok"


FLAGS = {"FF": (False, False), "TF": (True, False), "FT": (False, True), "TT": (True, True)}


class umeyama_contract:
    """context manager: geometry.umeyama_alignment of the *symbolically loaded* evo replaced by its contract as seen
    by align(): an arbitrary proper rotation R(q), an arbitrary translation and an arbitrary positive scale (exactly
    1.0 without scale estimation; that Umeyama meets this contract is C03).  The wiring obligations -- which flags
    reach Umeyama, which points, and in which mode its result is applied -- then need no SVD reasoning at all."""

    def __init__(self, AL, zs):
        self.AL, self.zs, self.calls = AL, zs, []

    def __enter__(self):
        self.G = common.S("evo.core.trajectory").geometry
        self.saved = self.G.umeyama_alignment

        def stub(x, y, with_scale=False):
            r = symrot.new_rotation(self.AL.q[0])
            t = symnp.array([SymReal(v) for v in self.AL.p[0]])
            c = SymReal(self.zs) if with_scale else 1.0
            self.calls.append(dict(x=x, y=y, with_scale=with_scale, r=r, t=t, c=c))
            return r, t, c
        self.G.umeyama_alignment = stub
        return self

    def __exit__(self, *a):
        self.G.umeyama_alignment = self.saved
        return False


def generic_positions_hook(trajs, inputs, also=()):
    """witness hook: the solver's first model of a wiring obligation often has degenerate positions (all zero), which
    the real Umeyama refuses; the same negated obligation is solved again with the positions pinned to generic
    rational values (still a model of the negated obligation) and replayed on the real code"""
    def hook(ctx, query):
        for seed in (0, 1):
            # everything pinned first (the query becomes an evaluation), then the positions alone
            full = [e for t in trajs + list(also) for e in t.pin(seed)]
            pos = []
            for t in trajs:
                names = {str(v) for row in t.p for v in row}
                pos += [e for e in t.pin(seed) if str(e.arg(0)) in names]
            for pins in (full, pos):
                r2, m2 = ctx.solve(list(query) + pins, kind="generic-positions", full=True, timeout_ms=20000)
                if r2 == "sat":
                    yield runner.model_values(m2, inputs)
                    break
    return hook


def run_wiring(case, col):
    """align() with Umeyama replaced by its contract: all four flag combinations (both flags set is what evo_ape /
    evo_rpe / evo_traj pass for -s without -a and means scale-only, as documented for correct_only_scale)"""
    fl, st, N, n = case["fl"], case["st"], case["N"], case["n"]
    cs, cos = FLAGS[fl]
    Rf, Es, AL = SymTraj("r", N, stamps=False), SymTraj("e", N, stamps=False), SymTraj("AL", 1, stamps=False)
    zs = z3.Real("align_scale")
    inputs = dict(Rf.inputs(), **Es.inputs())
    inputs.update(AL.inputs())
    inputs["align_scale"] = zs
    kw = dict(correct_scale=cs, correct_only_scale=cos)
    mode = "scale_only" if cos else ("sim" if cs else "rigid")
    used = N if n == -1 else n
    state = {}

    def fn():
        ref, est = Rf.build(st), Es.build(st)
        state["ref"], state["snap"] = ref, snapshot(ref)
        with umeyama_contract(AL, zs) as U:
            r, t, s = est.align(ref, n=n, **kw)
        state["calls"] = U.calls
        return est, r, t, s

    def replay(vals):
        return replay_align(vals, Rf, Es, st, n, kw)

    def on_ok(pr):
        est, r, t, s = pr.out
        calls = state["calls"]
        g = {"umeyama_called_exactly_once": z3.BoolVal(len(calls) == 1)}
        if len(calls) == 1:
            c = calls[0]
            g["scale_estimation_requested_iff_a_scale_flag_is_set"] = z3.BoolVal(bool(c["with_scale"]) == (cs or cos))
            x, y = rnp.asarray(c["x"], dtype=object), rnp.asarray(c["y"], dtype=object)
            ok_shape = x.shape == (3, used) and y.shape == (3, used)
            g["umeyama_gets_the_first_n_position_pairs_estimate_first"] = z3.And(
                [toz(x[a, i]) == Es.p[i][a] for a in range(3) for i in range(used)] +
                [toz(y[a, i]) == Rf.p[i][a] for a in range(3) for i in range(used)]) if ok_shape else z3.BoolVal(False)
            rz0 = zR(AL.q[0])
            g["returns_umeyamas_result"] = z3.And(
                [toz(r[a, b]) == rz0[a][b] for a in range(3) for b in range(3)] +
                [toz(t[a]) == AL.p[0][a] for a in range(3)] + [toz(s) == (zs if (cs or cos) else 1)])
        rz = [[toz(r[a, b]) for b in range(3)] for a in range(3)]
        tz = [toz(v) for v in t]
        sz = toz(s)
        g["count_unchanged"] = z3.BoolVal(est.num_poses == N and len(est.positions_xyz) == N and len(est.poses_se3) == N
                                          and len(est.orientations_quat_wxyz) == N)
        if est.num_poses == N:
            g.update(pose_goals(est, Es, N, mode, rz, tz, sz))
        g["reference_unchanged"] = z3.BoolVal(unchanged(state["ref"], state["snap"]))
        runner.check_obligations(col, pr.ctx, g, inputs, replay, descr=case["name"], timeout_ms=60000,
                                 witness_hook=generic_positions_hook([Rf, Es], inputs, also=[AL]))

    runner.explore_case(col, fn, Rf.assumptions() + Es.assumptions() + AL.assumptions() + [zs > 0], on_ok, None,
                        timeout_ms=60000, must_reach=("ok",), pins=common.pins_for(Rf, Es, AL))


def run_origin(case, col):
    st, N = case["st"], case["N"]
    Rf, Es = SymTraj("r", N, stamps=False), SymTraj("e", N, stamps=False)
    inputs = dict(Rf.inputs(), **Es.inputs())
    state = {}

    def fn():
        ref, est = Rf.build(st), Es.build(st)
        state["ref"], state["snap"] = ref, snapshot(ref)
        T = est.align_origin(ref)
        return est, T

    def replay(vals):
        ref, est = Rf.concrete(vals, st), Es.concrete(vals, st)
        est0 = Es.concrete(vals, st)
        T = est.align_origin(ref)
        bad = []
        Texp = ref.poses_se3[0].dot(rnp.linalg.inv(est0.poses_se3[0]))
        m = max(1.0, float(rnp.abs(Texp).max()), float(rnp.abs(est0.positions_xyz).max()))
        if not rnp.allclose(T, Texp, atol=1e-8 * m):
            bad.append("returned matrix is not ref_0 * est_0^-1")
        if not rnp.allclose(est.poses_se3[0], ref.poses_se3[0], atol=1e-8 * m):
            bad.append("first pose not mapped onto the reference's first pose")
        for i in range(est0.num_poses):
            if not rnp.allclose(est.poses_se3[i], Texp.dot(est0.poses_se3[i]), atol=1e-8 * m * m):
                bad.append("pose %d is not T * pose" % i)
        return bool(bad), "; ".join(bad) or "ok"

    def on_ok(pr):
        est, T = pr.out
        Tz = zmat_mul(zpose(Rf.q[0], Rf.p[0]), zinv(Es.q[0], Es.p[0]))
        g = {"returned_matrix_is_ref0_times_est0_inverse": z3.And([toz(T[a, b]) == zz(Tz[a][b]) for a in range(4) for b in range(4)])}
        P0 = zpose(Rf.q[0], Rf.p[0])
        g["first_pose_mapped_onto_reference_first_pose"] = z3.And([toz(est.poses_se3[0][a, b]) == zz(P0[a][b]) for a in range(4) for b in range(4)])
        eqs, rel = [], []
        for i in range(N):
            Pi = zmat_mul(Tz, zpose(Es.q[i], Es.p[i]))
            eqs += [toz(est.poses_se3[i][a, b]) == zz(Pi[a][b]) for a in range(4) for b in range(4)]
            eqs += [toz(est.positions_xyz[i][a]) == zz(Pi[a][3]) for a in range(3)]
        g["every_pose_is_T_times_pose"] = z3.And(eqs)
        L = common.S("evo.core.lie_algebra")
        for i in range(N - 1):
            now = L.relative_se3(est.poses_se3[i], est.poses_se3[i + 1])
            before = zmat_mul(zinv(Es.q[i], Es.p[i]), zpose(Es.q[i + 1], Es.p[i + 1]))
            rel += [toz(now[a, b]) == zz(before[a][b]) for a in range(4) for b in range(4)]
        g["relative_poses_preserved"] = z3.And(rel) if rel else z3.BoolVal(True)
        g["reference_unchanged"] = z3.BoolVal(unchanged(state["ref"], state["snap"]))
        runner.check_obligations(col, pr.ctx, g, inputs, replay, descr=case["name"], timeout_ms=90000)

    runner.explore_case(col, fn, Rf.assumptions() + Es.assumptions(), on_ok, None, timeout_ms=90000, pins=common.pins_for(Rf, Es))


def run_recorded(case, col):
    """alignment_transformation_sim3 recorded in an evo_ape / evo_rpe result maps the unaligned
    estimate onto the estimate stored in that result"""
    fn_, m, N = case["fn"], case["m"], case["N"]
    Rf, Es = SymTraj("r", N), SymTraj("e", N)
    inputs = dict(Rf.inputs(), **Es.inputs())
    contract = case.get("contract", False)
    AL, zs = SymTraj("AL", 1, stamps=False), z3.Real("align_scale")
    if contract:
        inputs.update(AL.inputs())
        inputs["align_scale"] = zs
    kw = dict(align=dict(align=True), align_scale=dict(align=True, correct_scale=True), scale_only=dict(correct_scale=True),
              origin=dict(align_origin=True))[m]
    Mx = common.S("evo.core.metrics")

    def call(mod, ref, est, metrics_mod, units_mod):
        if fn_ == "ape":
            return mod.ape(ref, est, metrics_mod.PoseRelation.translation_part, ref_name="REF", est_name="EST", **kw)
        return mod.rpe(ref, est, metrics_mod.PoseRelation.translation_part, 1, units_mod.Unit.frames, ref_name="REF", est_name="EST", **kw)

    def fn():
        sc.ctx().memo.pop("svd_calls", None)
        mod = common.S("evo.main_" + fn_)
        if contract:
            with umeyama_contract(AL, zs):
                return call(mod, Rf.build("se3"), Es.build("se3"), Mx, common.S("evo.core.units"))
        return call(mod, Rf.build("se3"), Es.build("se3"), Mx, common.S("evo.core.units"))

    def replay(vals):
        mod = common.R("evo.main_" + fn_)
        ref, est = Rf.concrete(vals, "se3"), Es.concrete(vals, "se3")
        est0 = Es.concrete(vals, "se3")
        try:
            res = call(mod, ref, est, common.R("evo.core.metrics"), common.R("evo.core.units"))
        except Exception as e:       # noqa: BLE001
            return False, "replay raised %s" % e
        A = res.np_arrays.get("alignment_transformation_sim3")
        if A is None:
            return True, "no alignment matrix recorded"
        st = res.trajectories["EST"]
        bad = []
        mx = max(1.0, float(rnp.abs(A).max()), float(rnp.abs(est0.positions_xyz).max()))
        for i in range(st.num_poses):
            p = A.dot(rnp.append(est0.positions_xyz[i], 1.0))[:3]
            if not rnp.allclose(p, st.positions_xyz[i], atol=1e-7 * mx * mx):
                bad.append("recorded matrix maps unaligned position %d to %r, stored %r" % (i, p, st.positions_xyz[i]))
        return bool(bad), "; ".join(bad[:2]) or "ok"

    def on_ok(pr):
        res = pr.out
        A = res.np_arrays.get("alignment_transformation_sim3")
        if A is not None and any(x is sc.POISON for x in rnp.asarray(A, dtype=object).reshape(-1)):
            calls = pr.ctx.memo.get("svd_calls", [])
            if len(calls) == 1:
                poison_scale_path_is_infeasible(col, pr.ctx, calls[0], inputs, replay, case["name"] + " (zero variance path)")
            else:
                col.d["harness_errors"].append(dict(ob="path", why="poison scale without an SVD call"))
            return
        g = {"alignment_matrix_recorded": z3.BoolVal(A is not None and A.shape == (4, 4))}
        if A is not None and A.shape == (4, 4):
            st = res.trajectories["EST"]
            Az = [[toz(A[a, b]) for b in range(4)] for a in range(4)]
            eqs = []
            for i in range(st.num_poses):
                # rpe() keeps poses [0]+delta_ids = all poses for delta 1
                p = Es.p[i]
                mp = [sum(Az[a][b] * p[b] for b in range(3)) + Az[a][3] for a in range(3)]
                eqs += [toz(st.positions_xyz[i][a]) == mp[a] for a in range(3)]
            eqs += [Az[3][b] == (1 if b == 3 else 0) for b in range(4)]
            g["recorded_matrix_maps_unaligned_estimate_onto_stored_estimate"] = z3.And(eqs)
            g["all_poses_stored"] = z3.BoolVal(st.num_poses == N)
        known = runner.load_known(PROPERTY)
        kpred = {}
        if "recorded_matrix.scale_only" in known and m == "scale_only":
            kpred["recorded_matrix.scale_only"] = z3.BoolVal(True)
        runner.check_obligations(col, pr.ctx, g, inputs, replay, known=kpred, descr=case["name"], timeout_ms=90000,
                                 witness_hook=(generic_positions_hook([Rf, Es], inputs, also=[AL]) if contract else None))

    def on_exc(pr):
        if pr.status != "exc:GeometryException":
            col.d["harness_errors"].append(dict(ob="path", why="unexpected %s: %s" % (pr.status, pr.exc)))
    Xz = [[Es.p[i][a] for i in range(N)] for a in range(3)]
    if contract:
        runner.explore_case(col, fn, Rf.assumptions() + Es.assumptions() + AL.assumptions() + [zs > 0], on_ok, on_exc,
                            timeout_ms=90000, must_reach=("ok",), pins=common.pins_for(Rf, Es, AL))
        return
    runner.explore_case(col, fn, Rf.assumptions() + Es.assumptions(), on_ok, on_exc, timeout_ms=90000, must_reach=("ok",),
                        pins=(svd_pins(Xz, [[Rf.p[i][a] for i in range(N)] for a in range(3)]) if m != "origin" else common.pins_for(Rf, Es)))


def replay_file(rec):
    return False, "re-run ./check C04"
