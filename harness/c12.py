"""C12 -- a metric result is self-consistent (statistics, companion arrays, unit).

Real functions executed: metrics.PE.get_statistic / get_all_statistics /
get_result / change_unit, main_ape.ape, main_rpe.rpe (with APE/RPE.process_data
and PoseTrajectory3D.reduce_to_ids underneath).
"""
from fractions import Fraction
import math

import numpy as rnp
import z3

from evoverif import runner, symcore as sc, symnp, stubs
from evoverif.symcore import SymReal, toz
from . import common
from .common import SymTraj, zabs

PROPERTY = "C12"
FUNCTIONS = ["evo.core.metrics.PE.get_statistic", "PE.get_all_statistics", "PE.get_result", "PE.change_unit",
             "evo.core.units.METER_SCALE_FACTORS", "evo.main_ape.ape", "evo.main_rpe.rpe",
             "evo.core.metrics.APE.process_data", "evo.core.metrics.RPE.process_data",
             "evo.core.geometry.accumulated_distances"]
BOUNDS = {"quick": "error vectors of 1..4 symbolic values; all 10x10 ordered unit pairs on 2 symbolic values; ape()/rpe() on N<=3 symbolic stamped poses",
          "thorough": "error vectors of 1..6 values; unit pairs on 3 values; ape()/rpe() on N<=4"}
STUBS = ["math.sqrt / linalg.norm: fresh r>=0 with r^2 = radicand", "np.rad2deg/deg2rad: multiplication by the exact rational of the double pi/180"]
ASSUMPTIONS = ["error values are >= 0 for the clause rmse <= max (errors are norms / absolute values)",
               "unit-conversion factors are compared as exact rationals of the decimal literals in units.py (1e-3 = 1/1000); "
               "the rad/deg factor is the rational 180/pi_double"]
OUTSIDE = ["binary64 rounding of the conversion factors and of the statistics", "vectors longer than the bound"]
MODS = ("evo.main_ape", "evo.main_rpe")


def worker_init():
    common.ensure_loaded(MODS)


def cases(tier, seed):
    nmax = 4 if tier == "quick" else 6
    out = [dict(name="stats_n%d" % n, kind="stats", n=n) for n in range(1, nmax + 1)]
    out += [dict(name="stats_history_n%d_%s" % (n, h), kind="stats", n=n, history=h)
            for n in ((2, 3) if tier == "quick" else (2, 3, 4))
            for h in ("stats-unit-stats", "result-unit-result", "stats-newerror-stats")]
    out += [dict(name="unit_from_%s" % u, kind="unit", frm=u, n=2 if tier == "quick" else 3)
            for u in ["none", "millimeters", "centimeters", "meters", "kilometers", "seconds", "degrees",
                      "radians", "frames", "percent"]]
    out.append(dict(name="unit_empty", kind="unit_empty"))
    nn = [2, 3] if tier == "quick" else [2, 3, 4]
    for n in nn:
        out.append(dict(name="ape_companion_N%d_trans" % n, kind="ape", n=n, rel="translation_part", unit=None))
        out.append(dict(name="ape_companion_N%d_trans_mm" % n, kind="ape", n=n, rel="translation_part", unit="millimeters"))
    out.append(dict(name="ape_companion_N2_full", kind="ape", n=2, rel="full_transformation", unit=None))
    out.append(dict(name="ape_companion_N2_rotpart", kind="ape", n=2, rel="rotation_part", unit=None))
    for n in nn:
        for rel in ("translation_part", "point_distance", "point_distance_error_ratio"):
            for allp in (False, True):
                out.append(dict(name="rpe_companion_N%d_%s_%s" % (n, rel, "all" if allp else "cons"), kind="rpe",
                                n=n, rel=rel, all_pairs=allp, delta=1))
    for n in ([3] if tier == "quick" else [3, 4]):
        for rel in ("translation_part", "point_distance"):
            out.append(dict(name="rpe_companion_N%d_%s_meters_all" % (n, rel), kind="rpe", n=n, rel=rel,
                            all_pairs=True, delta=None, unit="meters"))
        out.append(dict(name="rpe_companion_N%d_translation_part_meters_cons" % n, kind="rpe", n=n,
                        rel="translation_part", all_pairs=False, delta=None, unit="meters"))
    if tier != "quick":
        out.append(dict(name="rpe_companion_N4_delta2", kind="rpe", n=4, rel="translation_part", all_pairs=False, delta=2))
        out.append(dict(name="rpe_companion_N4_delta2_all", kind="rpe", n=4, rel="point_distance", all_pairs=True, delta=2))
    return out


def run_case(case, col):
    {"stats": run_stats, "unit": run_unit, "unit_empty": run_unit_empty, "ape": run_ape, "rpe": run_rpe}[case["kind"]](case, col)


# --------------------------------------------------------------------------
# statistics
# --------------------------------------------------------------------------
def zcount(conds):
    return z3.Sum([z3.If(c, 1, 0) for c in conds]) if conds else z3.IntVal(0)


def isrank(e, x, r):
    return z3.And(zcount([v < x for v in e]) <= r - 1, zcount([v <= x for v in e]) >= r)


def stat_specs(e, st):
    """definitions of the seven statistics over z3 terms e; st: name -> z3 term (evo's value)"""
    n = len(e)
    mean = sum(e) / n
    g = {}
    g["mean"] = st["mean"] == mean
    g["sse"] = st["sse"] == sum(v * v for v in e)
    g["rmse"] = z3.And(st["rmse"] >= 0, st["rmse"] * st["rmse"] == sum(v * v for v in e) / n)
    g["std"] = z3.And(st["std"] >= 0, st["std"] * st["std"] == sum((v - mean) * (v - mean) for v in e) / n)
    g["min"] = z3.And(z3.Or([st["min"] == v for v in e]), z3.And([st["min"] <= v for v in e]))
    g["max"] = z3.And(z3.Or([st["max"] == v for v in e]), z3.And([st["max"] >= v for v in e]))
    k = n // 2
    if n % 2:
        g["median"] = z3.Or([z3.And(st["median"] == v, isrank(e, v, k + 1)) for v in e])
    else:
        g["median"] = z3.Or([z3.And(st["median"] == (a + b) / 2, isrank(e, a, k), isrank(e, b, k + 1))
                             for a in e for b in e])
    return g


def run_stats(case, col):
    n = case["n"]
    M = common.S("evo.core.metrics")
    ev = [z3.Real("e%d" % i) for i in range(n)]
    inputs = {str(v): v for v in ev}
    assume = [v >= 0 for v in ev]

    history = case.get("history")
    U = common.S("evo.core.units")
    ev0 = [z3.Real("f%d" % i) for i in range(n)]
    scale = Fraction(1)
    if history:
        inputs.update({str(v): v for v in ev0})
        assume += [v >= 0 for v in ev0]

    def prelude(m, Uu, arr0, arr1):
        """operation history before the statistics are read (C12 holds after any history)"""
        if history == "stats-unit-stats":
            m.error = arr1
            m.get_all_statistics()
            m.change_unit(Uu.Unit.centimeters)
        elif history == "result-unit-result":
            m.error = arr1
            m.get_result("r", "e")
            m.change_unit(Uu.Unit.millimeters)
        elif history == "stats-newerror-stats":
            m.error = arr0
            m.get_all_statistics()
            m.error = arr1

    if history == "stats-unit-stats":
        scale = Fraction(100)
    elif history == "result-unit-result":
        scale = Fraction(1000)
    evs = [v * sc.q_of(scale) for v in ev] if scale != 1 else ev

    def fn():
        m = M.APE(M.PoseRelation.translation_part)
        if history:
            prelude(m, U, symnp.array([SymReal(v) for v in ev0]), symnp.array([SymReal(v) for v in ev]))
        else:
            m.error = symnp.array([SymReal(v) for v in ev])
        allst = m.get_all_statistics()
        single = {s.value: m.get_statistic(s) for s in M.StatisticsType}
        res = m.get_result("r", "e")
        return m, allst, single, res

    def replay(vals):
        Mr = common.R("evo.core.metrics")
        m = Mr.APE(Mr.PoseRelation.translation_part)
        e = rnp.array([float(vals[str(v)]) for v in ev])
        if history:
            e0 = rnp.array([float(vals[str(v)]) for v in ev0])
            prelude(m, common.R("evo.core.units"), e0.copy(), e.copy())
            e = e * float(scale)
        else:
            m.error = e.copy()
        st = m.get_all_statistics()
        res = m.get_result("r", "e")
        bad = []
        ref = dict(mean=float(rnp.mean(e)), median=float(rnp.median(e)), min=float(e.min()), max=float(e.max()),
                   std=float(rnp.std(e)), rmse=math.sqrt(float(rnp.mean(e * e))), sse=float(rnp.sum(e * e)))
        if set(st) != set(ref):
            bad.append("statistics keys %r" % (sorted(st),))
        for k2, v in ref.items():
            for src, d in (("get_all_statistics", st), ("result.stats", res.stats)):
                if k2 not in d or abs(float(d[k2]) - v) > 1e-9 * max(1.0, abs(v)):
                    bad.append("%s[%s]=%r expected %r" % (src, k2, d.get(k2), v))
        if not rnp.allclose(res.np_arrays.get("error_array"), e, rtol=1e-12, atol=0):
            bad.append("error_array differs from the metric's values")
        return bool(bad), "; ".join(bad) or "ok"

    def on_ok(pr):
        m, allst, single, res = pr.out
        names = ["rmse", "mean", "median", "std", "min", "max", "sse"]
        g = {}
        g["all_seven_statistics_present"] = z3.BoolVal(sorted(allst) == sorted(names) and sorted(res.stats) == sorted(names))
        if sorted(allst) == sorted(names):
            st = {k: toz(v) for k, v in allst.items()}
            for k, f in stat_specs(evs, st).items():
                g["definition_" + k] = f
            g["get_statistic_agrees"] = z3.And([toz(single[k]) == st[k] for k in names])
            g["result_stats_are_the_statistics"] = z3.And([toz(res.stats[k]) == st[k] for k in names]) \
                if sorted(res.stats) == sorted(names) else z3.BoolVal(False)
            g["min_le_median_le_max"] = z3.And(st["min"] <= st["median"], st["median"] <= st["max"])
            g["min_le_mean_le_rmse_le_max"] = z3.And(st["min"] <= st["mean"], st["mean"] <= st["rmse"], st["rmse"] <= st["max"])
            g["rmse2_eq_mean2_plus_std2"] = st["rmse"] * st["rmse"] == st["mean"] * st["mean"] + st["std"] * st["std"]
        ea = res.np_arrays.get("error_array")
        g["result_error_array_is_the_error"] = (z3.And([toz(ea[i]) == evs[i] for i in range(n)])
                                                if ea is not None and len(ea) == n else z3.BoolVal(False))
        un = {None: "m", "stats-unit-stats": "cm", "result-unit-result": "mm", "stats-newerror-stats": "m"}[history]
        g["label_and_title"] = z3.BoolVal(res.info.get("label") == "APE (%s)" % un and "translation part" in res.info.get("title", "")
                                          and "(%s)" % un in res.info.get("title", ""))
        runner.check_obligations(col, pr.ctx, g, inputs, replay, descr="n=%d" % n, timeout_ms=60000)

    runner.explore_case(col, fn, assume, on_ok, None, timeout_ms=60000)


# --------------------------------------------------------------------------
# change_unit
# --------------------------------------------------------------------------
LEN = {"millimeters": Fraction(1, 1000), "centimeters": Fraction(1, 100), "meters": Fraction(1), "kilometers": Fraction(1000)}
ALL_UNITS = ["none", "millimeters", "centimeters", "meters", "kilometers", "seconds", "degrees", "radians", "frames", "percent"]


def expected_factor(frm, to):
    """None = must be refused; Fraction = factor"""
    if frm == to:
        return Fraction(1)
    if frm in LEN and to in LEN:
        return LEN[frm] / LEN[to]
    if frm == "radians" and to == "degrees":
        return Fraction(180) / stubs.PI
    if frm == "degrees" and to == "radians":
        return stubs.PI / 180
    return None


def run_unit(case, col):
    M = common.S("evo.core.metrics")
    U = common.S("evo.core.units")
    frm, n = case["frm"], case["n"]
    ev = [z3.Real("e%d" % i) for i in range(n)]
    inputs = {str(v): v for v in ev}
    inputs["to_unit"] = z3.Int("to_unit")

    def fn():
        k = sc.ctx().choose(len(ALL_UNITS), "to_unit")
        to = ALL_UNITS[k]
        m = M.APE(M.PoseRelation.translation_part)
        m.unit = U.Unit[frm]
        m.error = symnp.array([SymReal(v) for v in ev])
        try:
            m.change_unit(U.Unit[to])
            refused = False
        except M.MetricsException:
            refused = True
        return to, m, refused

    def make_replay(to):
        def replay(vals):
            Mr, Ur = common.R("evo.core.metrics"), common.R("evo.core.units")
            m = Mr.APE(Mr.PoseRelation.translation_part)
            m.unit = Ur.Unit[frm]
            e = rnp.array([float(vals[str(v)]) for v in ev])
            m.error = e.copy()
            try:
                m.change_unit(Ur.Unit[to])
                refused = False
            except Mr.MetricsException:
                refused = True
            f = expected_factor(frm, to)
            bad = []
            if f is None:
                if not refused:
                    bad.append("conversion %s -> %s was not refused" % (frm, to))
                if not rnp.array_equal(m.error, e) or m.unit is not Ur.Unit[frm]:
                    bad.append("refused conversion changed values or unit")
            else:
                if refused:
                    bad.append("conversion %s -> %s refused" % (frm, to))
                else:
                    if m.unit is not Ur.Unit[to]:
                        bad.append("unit not updated")
                    if not rnp.allclose(m.error, e * float(f), rtol=1e-12, atol=0):
                        bad.append("values %r != %r * %s" % (m.error, e, float(f)))
            return bool(bad), "; ".join(bad) or "ok"
        return replay

    def on_ok(pr):
        to, m, refused = pr.out
        f = expected_factor(frm, to)
        g = {}
        if f is None:
            g["refused"] = z3.BoolVal(refused)
            g["values_untouched"] = z3.BoolVal(common.same_terms(m.error, [SymReal(v) for v in ev]) and m.unit is U.Unit[frm])
        else:
            g["accepted"] = z3.BoolVal(not refused)
            g["unit_updated"] = z3.BoolVal(m.unit is U.Unit[to])
            g["values_times_exact_factor"] = z3.And([toz(m.error[i]) == ev[i] * sc.q_of(f) for i in range(n)]) \
                if len(m.error) == n else z3.BoolVal(False)
        runner.check_obligations(col, pr.ctx, g, inputs, make_replay(to), descr="%s->%s" % (frm, to))

    runner.explore_case(col, fn, [], on_ok, None)


def run_unit_empty(case, col):
    M = common.S("evo.core.metrics")
    U = common.S("evo.core.units")

    def fn():
        m = M.APE(M.PoseRelation.translation_part)
        try:
            m.change_unit(U.Unit.millimeters)
            return m, False
        except M.MetricsException:
            return m, True

    def on_ok(pr):
        m, refused = pr.out
        runner.check_obligations(col, pr.ctx, dict(empty_refused=z3.BoolVal(refused and m.unit is U.Unit.meters),
                                                   still_empty=z3.BoolVal(len(m.error) == 0)), {},
                                 lambda v: (True, "change_unit on an empty error array was not refused"))
    runner.explore_case(col, fn, [], on_ok, None)


# --------------------------------------------------------------------------
# ape() / rpe() companion arrays
# --------------------------------------------------------------------------
def acc_dist_spec(p, idx, name, extra):
    """accumulated straight-line distances over positions p[idx]; returns list of z3
    terms, adding definitions of fresh step lengths to `extra`"""
    out = [z3.RealVal(0)]
    for k in range(1, len(idx)):
        a, b = p[idx[k - 1]], p[idx[k]]
        u = z3.Real("%s_step%d" % (name, k))
        extra.append(z3.And(u >= 0, u * u == sum((a[c] - b[c]) * (a[c] - b[c]) for c in range(3))))
        out.append(out[-1] + u)
    return out


def check_companions(col, pr, res, ids, Rf, Es, inputs, replay, label, title_bits, descr, first_skipped):
    """ids: indices (into the processed trajectories) of the poses the stored
    trajectories consist of; values belong to ids[1:] if first_skipped else ids"""
    vals_ids = ids[1:] if first_skipped else ids
    nvals = len(res.np_arrays["error_array"])
    g = {}
    keys = ["seconds_from_start", "timestamps", "distances_from_start", "distances"]
    g["companion_arrays_present"] = z3.BoolVal(all(k in res.np_arrays for k in keys))
    g["one_entry_per_value"] = z3.BoolVal(all(len(res.np_arrays[k]) == nvals for k in keys if k in res.np_arrays)
                                          and nvals == len(vals_ids))
    extra = []
    if all(k in res.np_arrays for k in keys) and all(len(res.np_arrays[k]) == nvals for k in keys) and nvals == len(vals_ids):
        ts = res.np_arrays["timestamps"]
        ss = res.np_arrays["seconds_from_start"]
        g["timestamps_of_value_poses"] = z3.And([toz(ts[k]) == Es.t[vals_ids[k]] for k in range(nvals)]) if nvals else z3.BoolVal(True)
        g["seconds_from_start"] = z3.And([toz(ss[k]) == Es.t[vals_ids[k]] - Es.t[ids[0]] for k in range(nvals)]) if nvals else z3.BoolVal(True)
        dref = acc_dist_spec(Rf.p, ids, "ref", extra)
        dest = acc_dist_spec(Es.p, ids, "est", extra)
        off = 1 if first_skipped else 0
        g["distances_from_start_ref"] = z3.And([toz(res.np_arrays["distances_from_start"][k]) == dref[k + off] for k in range(nvals)]) if nvals else z3.BoolVal(True)
        g["distances_est"] = z3.And([toz(res.np_arrays["distances"][k]) == dest[k + off] for k in range(nvals)]) if nvals else z3.BoolVal(True)
    # stored trajectories are the processed ones restricted to ids
    tr, te = res.trajectories.get("REF"), res.trajectories.get("EST")
    ok = tr is not None and te is not None and tr.num_poses == len(ids) and te.num_poses == len(ids) \
        and len(tr.timestamps) == len(ids) and len(te.timestamps) == len(ids)
    g["stored_trajectories_shape"] = z3.BoolVal(bool(ok))
    if ok:
        eqs = []
        for k, i in enumerate(ids):
            eqs.append(toz(tr.timestamps[k]) == Rf.t[i])
            eqs.append(toz(te.timestamps[k]) == Es.t[i])
            for c in range(3):
                eqs.append(toz(tr.positions_xyz[k][c]) == Rf.p[i][c])
                eqs.append(toz(te.positions_xyz[k][c]) == Es.p[i][c])
            for c in range(4):
                eqs.append(toz(tr.orientations_quat_wxyz[k][c]) == Rf.q[i][c])
                eqs.append(toz(te.orientations_quat_wxyz[k][c]) == Es.q[i][c])
        g["stored_trajectories_are_the_processed_poses"] = z3.And(eqs)
    title = res.info.get("title", "")
    g["title_and_label"] = z3.BoolVal(res.info.get("label") == label and all(b in title for b in title_bits))
    g["names"] = z3.BoolVal(res.info.get("ref_name") == "REF" and res.info.get("est_name") == "EST")
    # add definitions of the spec's step lengths as assumptions of the path for these goals
    ctx = pr.ctx
    saved = list(ctx.assumptions)
    ctx.assumptions = saved + extra
    try:
        runner.check_obligations(col, ctx, g, inputs, replay, descr=descr, timeout_ms=60000)
    finally:
        ctx.assumptions = saved


def run_ape(case, col):
    n, rel, unit = case["n"], case["rel"], case["unit"]
    MA = common.S("evo.main_ape")
    M = common.S("evo.core.metrics")
    U = common.S("evo.core.units")
    Rf, Es = SymTraj("r", n), SymTraj("e", n)
    inputs = dict(Rf.inputs(), **Es.inputs())
    assume = Rf.assumptions() + Es.assumptions()
    mode = "quat"

    def fn():
        tr, te = Rf.build(mode), Es.build(mode)
        return MA.ape(tr, te, M.PoseRelation[rel], ref_name="REF", est_name="EST",
                      change_unit=U.Unit[unit] if unit else None), tr, te

    def replay(vals):
        return replay_ape(vals, Rf, Es, rel, unit)

    def on_ok(pr):
        res, tr, te = pr.out
        ea = res.np_arrays.get("error_array")
        g0 = dict(one_value_per_pose=z3.BoolVal(ea is not None and len(ea) == n),
                  stored_objects_are_the_inputs=z3.BoolVal(res.trajectories.get("REF") is tr and res.trajectories.get("EST") is te))
        runner.check_obligations(col, pr.ctx, g0, inputs, replay, descr="ape N=%d" % n)
        if ea is None or len(ea) != n:
            return
        uname = {"translation_part": "m", "full_transformation": "unit-less", "rotation_part": "unit-less"}[rel]
        if unit:
            uname = U.Unit[unit].value
        bits = [M.PoseRelation[rel].value, "(%s)" % uname, "(not aligned)"]
        check_companions(col, pr, res, list(range(n)), Rf, Es, inputs, replay, "APE (%s)" % uname, bits,
                         "ape %s N=%d" % (rel, n), first_skipped=False)
        if rel == "translation_part":
            f = Fraction(1) if not unit else LEN["meters"] / LEN[unit]
            goals = {}
            for i in range(n):
                goals["value_%d_is_distance_times_unit_factor" % i] = z3.And(
                    toz(ea[i]) >= 0,
                    toz(ea[i]) * toz(ea[i]) == sc.q_of(f * f) * sum((Es.p[i][c] - Rf.p[i][c]) * (Es.p[i][c] - Rf.p[i][c]) for c in range(3)))
            runner.check_obligations(col, pr.ctx, goals, inputs, replay, descr="ape values N=%d" % n, timeout_ms=60000)

    runner.explore_case(col, fn, assume, on_ok, None, timeout_ms=60000,
                        pins=common.pins_for(Rf, Es))


def replay_ape(vals, Rf, Es, rel, unit):
    MA = common.R("evo.main_ape")
    M = common.R("evo.core.metrics")
    U = common.R("evo.core.units")
    tr, te = Rf.concrete(vals), Es.concrete(vals)
    tr0, te0 = Rf.concrete(vals), Es.concrete(vals)
    res = MA.ape(tr, te, M.PoseRelation[rel], ref_name="REF", est_name="EST",
                 change_unit=U.Unit[unit] if unit else None)
    return companions_oracle(res, tr0, te0, list(range(tr0.num_poses)), False)


def companions_oracle(res, tr0, te0, ids, first_skipped):
    bad = []
    ea = res.np_arrays["error_array"]
    vals_ids = ids[1:] if first_skipped else ids
    if len(ea) != len(vals_ids):
        bad.append("number of values %d != %d" % (len(ea), len(vals_ids)))
    for k in ("seconds_from_start", "timestamps", "distances_from_start", "distances"):
        if k not in res.np_arrays:
            bad.append("missing " + k)
        elif len(res.np_arrays[k]) != len(ea):
            bad.append("%s has %d entries for %d values" % (k, len(res.np_arrays[k]), len(ea)))
    if not bad:
        t = te0.timestamps
        exp_t = rnp.array([t[i] for i in vals_ids])
        if not rnp.allclose(res.np_arrays["timestamps"], exp_t, rtol=0, atol=1e-9):
            bad.append("timestamps %r expected %r" % (res.np_arrays["timestamps"], exp_t))
        if not rnp.allclose(res.np_arrays["seconds_from_start"], exp_t - t[ids[0]], rtol=0, atol=1e-9):
            bad.append("seconds_from_start wrong")
        off = 1 if first_skipped else 0

        def acc(p):
            d = [0.0]
            for k in range(1, len(ids)):
                d.append(d[-1] + float(rnp.linalg.norm(p[ids[k]] - p[ids[k - 1]])))
            return rnp.array(d[off:])
        if not rnp.allclose(res.np_arrays["distances_from_start"], acc(tr0.positions_xyz), rtol=1e-9, atol=1e-9):
            bad.append("distances_from_start wrong: %r vs %r" % (res.np_arrays["distances_from_start"], acc(tr0.positions_xyz)))
        if not rnp.allclose(res.np_arrays["distances"], acc(te0.positions_xyz), rtol=1e-9, atol=1e-9):
            bad.append("distances wrong")
    for nm, t0 in (("REF", tr0), ("EST", te0)):
        st = res.trajectories.get(nm)
        if st is None or st.num_poses != len(ids):
            bad.append("stored trajectory %s has wrong length" % nm)
        else:
            if not (rnp.allclose(st.timestamps, t0.timestamps[ids], rtol=0, atol=1e-9)
                    and rnp.allclose(st.positions_xyz, t0.positions_xyz[ids], rtol=0, atol=1e-9)):
                bad.append("stored trajectory %s is not the processed one" % nm)
    return bool(bad), "; ".join(bad) or "ok"


def run_rpe(case, col):
    n, rel, allp, delta = case["n"], case["rel"], case["all_pairs"], case["delta"]
    MR = common.S("evo.main_rpe")
    M = common.S("evo.core.metrics")
    U = common.S("evo.core.units")
    Rf, Es = SymTraj("r", n), SymTraj("e", n)
    inputs = dict(Rf.inputs(), **Es.inputs())
    assume = Rf.assumptions() + Es.assumptions()

    dunit = case.get("unit", "frames")
    state = {}
    if dunit == "frames":
        if allp:
            pairs = [(i, i + delta) for i in range(n) if i + delta < n]
        else:
            ch = list(range(0, n, delta))
            pairs = list(zip(ch, ch[1:]))
        zdelta = ztol = None
    else:
        pairs = None          # decided per path by evo's own selection (owned by C10)
        zdelta, ztol = z3.Real("delta"), z3.Real("rel_tol")
        inputs.update(delta=zdelta, rel_tol=ztol)
        assume += [zdelta > 0, ztol >= 0, ztol <= 1]

    def fn():
        tr, te = Rf.build("quat"), Es.build("quat")
        if dunit == "frames":
            state["pairs"] = pairs
            return MR.rpe(tr, te, M.PoseRelation[rel], delta, U.Unit.frames, all_pairs=allp,
                          ref_name="REF", est_name="EST")
        state["pairs"] = None
        probe = Es.build("quat")
        state["pairs"] = [(int(i), int(j)) for i, j in M.id_pairs_from_delta(
            probe.poses_se3, SymReal(zdelta), U.Unit[dunit], SymReal(ztol), all_pairs=allp)]
        return MR.rpe(tr, te, M.PoseRelation[rel], SymReal(zdelta), U.Unit[dunit], SymReal(ztol), all_pairs=allp,
                      ref_name="REF", est_name="EST")

    def replay(vals):
        MRr, Mr, Ur = common.R("evo.main_rpe"), common.R("evo.core.metrics"), common.R("evo.core.units")
        tr, te = Rf.concrete(vals), Es.concrete(vals)
        tr0, te0 = Rf.concrete(vals), Es.concrete(vals)
        try:
            if dunit == "frames":
                res = MRr.rpe(tr, te, Mr.PoseRelation[rel], delta, Ur.Unit.frames, all_pairs=allp, ref_name="REF", est_name="EST")
                prs = pairs
            else:
                dl, tl = float(vals["delta"]), float(vals["rel_tol"])
                prs = Mr.id_pairs_from_delta(te0.poses_se3, dl, Ur.Unit[dunit], tl, all_pairs=allp)
                res = MRr.rpe(tr, te, Mr.PoseRelation[rel], dl, Ur.Unit[dunit], tl, all_pairs=allp, ref_name="REF", est_name="EST")
        except Exception as e:       # noqa: BLE001
            return False, "replay raised %s" % e
        ends = [j for i, j in prs]
        if rel == "point_distance_error_ratio":
            ends = [j for i, j in prs if float(rnp.linalg.norm(tr0.positions_xyz[i] - tr0.positions_xyz[j])) != 0.0]
        return companions_oracle(res, tr0, te0, [0] + ends, True)

    def on_ok(pr):
        res = pr.out
        pairs = state["pairs"]
        ea = res.np_arrays.get("error_array")
        # which pairs survived (ratio: zero reference distances skipped) -- decided by the path
        ends = [j for i, j in pairs]
        if rel == "point_distance_error_ratio":
            # the path decided which reference distances are zero: recover from the path condition
            surv = []
            for (i, j) in pairs:
                dz = sum((Rf.p[i][c] - Rf.p[j][c]) * (Rf.p[i][c] - Rf.p[j][c]) for c in range(3))
                r, _ = pr.ctx.solve([dz == 0], kind="aux", full=True)
                r2, _ = pr.ctx.solve([dz != 0], kind="aux", full=True)
                if r == "unsat":
                    surv.append(j)
                elif r2 == "unsat":
                    pass
                else:
                    col.d["inconclusive"].append(dict(ob="ratio pair classification", why="path does not decide zero distance"))
                    return
            ends = surv
        uname = {"translation_part": "m", "point_distance": "m", "point_distance_error_ratio": "%"}[rel]
        bits = [M.PoseRelation[rel].value, "(%s)" % uname,
                ("delta = %d (frames)" % delta) if dunit == "frames" else "(m)",
                "all pairs" if allp else "consecutive pairs", "(not aligned)"]
        g0 = dict(one_value_per_surviving_pair=z3.BoolVal(ea is not None and len(ea) == len(ends)))
        runner.check_obligations(col, pr.ctx, g0, inputs, replay, descr="rpe N=%d" % n)
        if ea is None or len(ea) != len(ends):
            return
        check_companions(col, pr, res, [0] + ends, Rf, Es, inputs, replay, "RPE (%s)" % uname, bits,
                         "rpe %s N=%d all_pairs=%s" % (rel, n, allp), first_skipped=True)

    def on_exc(pr):
        # no pair at all -> FilterException is the documented refusal
        pairs = state.get("pairs")
        ok = pr.status == "exc:FilterException" and (pairs is None or len(pairs) == 0)
        if rel == "point_distance_error_ratio" and pr.status == "exc:ValueError" and pairs:
            # every selected pair has a zero reference distance: all values are skipped and
            # evo fails in numpy's min() of an empty array.  The statement says nothing about
            # an empty result; accepted only if the path forces *all* reference distances to 0.
            allzero = z3.And([sum((Rf.p[i][c] - Rf.p[j][c]) * (Rf.p[i][c] - Rf.p[j][c]) for c in range(3)) == 0
                              for i, j in pairs])
            runner.check_obligations(col, pr.ctx, dict(empty_result_only_if_all_reference_distances_zero=allzero), inputs,
                                     lambda v: (True, "ValueError although a pair has a non-zero reference distance"))
            col.note("ratio relation with every reference distance zero ends in numpy's ValueError (empty error array) - outside the statement")
            return
        runner.check_obligations(col, pr.ctx, dict(filter_error_only_without_pairs=z3.BoolVal(ok)), inputs,
                                 lambda v: (True, "unexpected exception %s" % pr.status))

    runner.explore_case(col, fn, assume, on_ok, on_exc, timeout_ms=60000,
                        pins=common.pins_for(Rf, Es))


def replay_file(rec):
    return False, "replay of stored C12 witnesses: re-run ./check C12 (witness is embedded in the record)"
