"""C18 -- config edits keep keys, types, user values; generated configs equal their arguments.

Engines: (i) the path explorer over *token lists*: every token of a command line is a solver-driven choice
from an alphabet that contains representatives of every token class (each kind of settings key, true/false in
any case, []/none, integer / non-integral / negative / exponent literals, words, option names), all lists up
to the bound; evo's real functions run on the chosen list (main_config.set_config, finalize_values, is_number,
generate, merge_json_union, settings.reset, update_if_outdated, merge_dicts, SettingsContainer, entry_points.
merge_config) against scratch files.  (ii) CrossHair (symbolic str / int inputs) as a bug-hunting pass on
generate: only counterexamples count (replayed), "not confirmed" is no verdict.
"""
import argparse
import copy
import itertools
import json
import os
import re
import shutil
import subprocess
import sys
import tempfile
from fractions import Fraction
from pathlib import Path

import z3

from evoverif import runner, symcore as sc
from . import common

PROPERTY = "C18"
FUNCTIONS = ["main_config.set_config", "finalize_values", "is_number", "generate", "to_number", "is_option", "merge_json_union",
             "settings.merge_dicts", "settings.reset", "settings.update_if_outdated", "settings.write_to_json_file",
             "SettingsContainer.__setattr__/__getattr__/update_existing_keys/from_json_file", "entry_points.merge_config",
             "main_ape_parser.parser / main_rpe_parser.parser / main_traj_parser.parser (option tables read at run time)"]
BOUNDS = {"quick": "set: all token lists of length <= 3 over a 17-token alphabet plus lists [key v v v] and [key v key v]; generate: every typed "
                   "option of the three parsers x 9 literals, and all option/value lists of length <= 3 over a 12-token alphabet",
          "thorough": "set: additionally all lists of length 4"}
STUBS = ["seaborn.color_palette lookup for plot_seaborn_palette is the real one"]
ASSUMPTIONS = ["token classes are represented by the alphabet's members (free-form strings beyond them: CrossHair pass, no exhaustiveness)"]
OUTSIDE = ["short combined flags (-vp), which evo_config's help itself excludes", "colour/log output"]

KEYS = ["plot_usetex", "plot_figsize", "plot_statistics", "plot_linewidth", "tf_cache_lookup_frequency", "plot_backend", "plot_seaborn_palette"]
VALS = ["true", "False", "TRUE", "10", "0.5", "-3", "-.25", "1e-3", "[]", "none", "abc"]
ALPHA = KEYS + VALS


def worker_init():
    common.ensure_loaded()


def cases(tier, seed):
    out = []
    for k, first in enumerate(ALPHA):
        out.append(dict(name="set_lists_starting_with_%s" % first.replace("[]", "brackets"), kind="set", first=k, tier=tier))
        if tier != "quick":
            # the quick tier's four-token shapes [key v v v] / [key v key v] draw their values from a larger value alphabet
            out.append(dict(name="set_value_shapes_starting_with_%s" % first.replace("[]", "brackets"), kind="set", first=k, tier="quick"))
    out.append(dict(name="reset_subsets", kind="reset"))
    out.append(dict(name="upgrade_keeps_user_values", kind="upgrade"))
    out.append(dict(name="merge_json_soft_hard", kind="mergejson"))
    out.append(dict(name="container_lock", kind="lock"))
    out.append(dict(name="merge_config_priority", kind="mergeconfig"))
    for cmd in ("ape", "rpe", "traj"):
        out.append(dict(name="generate_typed_options_%s" % cmd, kind="genopts", cmd=cmd))
    out.append(dict(name="generate_token_lists", kind="genlists"))
    out.append(dict(name="crosshair_generate", kind="crosshair"))
    return out


def run_case(case, col):
    globals()["run_" + case["kind"]](case, col)


def defaults():
    from evo.tools.settings_template import DEFAULT_SETTINGS_DICT
    return copy.deepcopy(DEFAULT_SETTINGS_DICT)


def scratch():
    return tempfile.mkdtemp(prefix="evoverif_c18_", dir=os.environ.get("TMPDIR", "/tmp"))


def literal_value(tok):
    try:
        f = float(tok)
    except ValueError:
        return None
    return int(f) if f == int(f) else f


# --------------------------------------------------------------------------
def set_oracle(before, after, args):
    """clauses of the statement for one `evo_config set` call"""
    bad = []
    if set(before) != set(after):
        bad.append("key set changed: +%r -%r" % (sorted(set(after) - set(before)), sorted(set(before) - set(after))))
        return bad
    named = {a for a in args if a in before}
    for k in before:
        if k not in named and after[k] != before[k]:
            bad.append("unnamed key %s changed" % k)
    for k in named:
        b, a = before[k], after[k]
        if isinstance(b, bool) and not isinstance(a, bool):
            bad.append("boolean parameter %s became %r" % (k, a))
        if isinstance(b, list) and k != "plot_seaborn_palette" and not isinstance(a, list):
            bad.append("list parameter %s became %r" % (k, a))
    # value semantics where the statement is explicit: a key followed by exactly its values (single occurrence)
    for i, a in enumerate(args):
        if a not in before or args.count(a) != 1:
            continue
        vals = []
        for v in args[i + 1:]:
            if v in before:
                break
            vals.append(v)
        b, got = before[a], after[a]
        if isinstance(b, bool):
            if not vals:
                exp = not b
            elif vals[-1].lower() in ("true", "false"):
                exp = vals[-1].lower() == "true"
            else:
                exp = None
            if exp is not None and got is not exp:
                bad.append("boolean %s: expected %r got %r" % (a, exp, got))
        elif not isinstance(b, list) and a != "plot_seaborn_palette" and vals:
            lv = literal_value(vals[0])
            if lv is not None:
                if got != lv or type(got) is not type(lv):
                    bad.append("numeric token %r for %s stored as %r (%s)" % (vals[0], a, got, type(got).__name__))
            elif got != vals[0]:
                bad.append("string token %r for %s stored as %r" % (vals[0], a, got))
        elif isinstance(b, list) and vals and a != "plot_seaborn_palette":
            if vals[0].lower() in ("[]", "none"):
                if got != []:
                    bad.append("list %s with %r: expected [] got %r" % (a, vals[0], got))
            else:
                exp = [literal_value(v) if literal_value(v) is not None else v for v in vals]
                if got != exp or any(type(x) is not type(y) for x, y in zip(got, exp)):
                    bad.append("list %s: expected %r got %r" % (a, exp, got))
        elif not vals and not isinstance(b, bool) and got != b:
            bad.append("%s without value changed" % a)
    return bad


def do_set(args):
    MC = common.R("evo.main_config")
    d = scratch()
    try:
        p = os.path.join(d, "settings.json")
        before = defaults()
        with open(p, "w") as f:
            json.dump(before, f)
        try:
            MC.set_config(p, list(args))
        except Exception as e:      # noqa: BLE001
            # evo_config ends with an error (e.g. seaborn's TypeError for a numeric palette name): the settings
            # file must be left as it was
            with open(p) as f:
                after = json.load(f)
            if after != before:
                raise
            return before, None
        with open(p) as f:
            after = json.load(f)
        return before, after
    finally:
        shutil.rmtree(d, ignore_errors=True)


def run_set(case, col):
    first = case["first"]
    nA = len(ALPHA)
    shapes4 = case["tier"] != "quick"

    def fn():
        c = sc.ctx()
        nl = 4 if (first < len(KEYS) or shapes4) else 2      # lists starting with a value token: the token is skipped by evo
        L = c.choose(nl, "length")        # 0: [a]  1: [a b]  2: [a b c]  3: four-token shapes
        toks = [ALPHA[first]]
        if L >= 1:
            toks.append(ALPHA[c.choose(nA, "tok1")])
        if L >= 2:
            toks.append(ALPHA[c.choose(nA, "tok2")])
        if L == 3:
            if shapes4:
                toks.append(ALPHA[c.choose(nA, "tok3")])
            elif first < len(KEYS):
                # [key v v v] and [key v key v]
                toks[1] = VALS[c.choose(len(VALS), "v1")] if toks[1] in KEYS else toks[1]
                if toks[2] in KEYS:
                    toks.append(VALS[c.choose(len(VALS), "v3")])
                else:
                    toks.append(VALS[c.choose(len(VALS), "v3")])
            else:
                return None
        before, after = do_set(toks)
        return toks, before, after

    def on_ok(pr):
        if pr.out is None:
            col.d["obligations"] += 0
            return
        toks, before, after = pr.out
        if after is None:
            col.note("evo_config set %s ends in an exception; settings file unchanged" % " ".join(toks))
            bad = []
        else:
            bad = set_oracle(before, after, toks)

        def replay(vals, toks=toks):
            b, a = do_set(toks)
            bb = set_oracle(b, a, toks) if a is not None else []
            return bool(bb), "evo_config set %s: %s" % (" ".join(toks), "; ".join(bb[:3]))
        col.sample(dict(tokens=toks))
        runner.check_obligations(col, pr.ctx, {"set_keeps_keys_types_and_only_named_keys": z3.BoolVal(not bad)}, {}, replay,
                                 descr="set %r -> %s" % (toks, "; ".join(bad) or "ok"))

    def on_exc(pr):
        col.d["harness_errors"].append(dict(ob="path", why="set_config raised %s: %s" % (pr.status, pr.exc)))
    runner.explore_case(col, fn, [], on_ok, on_exc, max_paths=20000)


# --------------------------------------------------------------------------
def run_reset(case, col):
    ST = common.R("evo.tools.settings")
    D = defaults()
    keys = ["plot_usetex", "plot_figsize", "plot_backend", "tf_cache_max_time"]
    subsets = [list(s) for r in range(0, 4) for s in itertools.combinations(keys + ["not_a_key"], r)][:40]

    def fn():
        c = sc.ctx()
        sub = subsets[c.choose(len(subsets), "subset")]
        exists = c.choose(2, "exists") == 1
        d = scratch()
        try:
            p = Path(d) / "settings.json"
            user = dict(D, plot_usetex=not D["plot_usetex"], plot_figsize=[3, 4], plot_backend="xyz", tf_cache_max_time=5.5, plot_linewidth=9.0)
            if exists:
                p.write_text(json.dumps(user))
            ST.reset(p, parameter_subset=sub if sub else None)
            return sub, exists, user, json.loads(p.read_text())
        finally:
            shutil.rmtree(d, ignore_errors=True)

    def on_ok(pr):
        sub, exists, user, after = pr.out
        bad = []
        if not exists or not sub:
            if after != D:
                bad.append("full reset does not give the defaults")
        else:
            for k in after:
                exp = D[k] if k in sub else user[k]
                if after[k] != exp:
                    bad.append("key %s: %r expected %r" % (k, after[k], exp))
            if set(after) != set(D):
                bad.append("key set changed")
        runner.check_obligations(col, pr.ctx, {"reset_restores_exactly_the_named_keys": z3.BoolVal(not bad)}, {},
                                 lambda v: (bool(bad), "; ".join(bad)), descr="reset %r exists=%s" % (sub, exists))
    runner.explore_case(col, fn, [], on_ok, None, max_paths=500)


def run_upgrade(case, col):
    ST = common.R("evo.tools.settings")
    D = defaults()
    allkeys = sorted(D)

    def fn():
        c = sc.ctx()
        # the user's old file: lacks some default keys, has changed values incl. falsy ones, maybe an extra legacy key
        miss = [allkeys[c.choose(len(allkeys), "missing1")], allkeys[c.choose(len(allkeys), "missing2")]]
        falsy = c.choose(2, "falsy") == 1
        d = scratch()
        try:
            pdir = Path(d)
            old = {k: v for k, v in D.items() if k not in miss}
            changed = {}
            for k in list(old)[:12]:
                v = old[k]
                if isinstance(v, bool):
                    changed[k] = (not v) if not falsy else False
                elif isinstance(v, list):
                    changed[k] = [] if falsy else v + [1]
                elif isinstance(v, (int, float)):
                    changed[k] = 0 if falsy else v + 1
                else:
                    changed[k] = "" if falsy else v + "_user"
            old.update(changed)
            old["legacy_key"] = 1
            (pdir / "settings.json").write_text(json.dumps(old))
            (pdir / "assets_version").write_text("v0.0.1")
            saved = (ST.DEFAULT_PATH, ST.USER_ASSETS_VERSION_PATH)
            ST.DEFAULT_PATH, ST.USER_ASSETS_VERSION_PATH = pdir / "settings.json", pdir / "assets_version"
            try:
                import contextlib, io
                with contextlib.redirect_stdout(io.StringIO()):
                    ST.update_if_outdated()
                    ST.update_if_outdated()        # second start: nothing to do
            finally:
                ST.DEFAULT_PATH, ST.USER_ASSETS_VERSION_PATH = saved
            return old, json.loads((pdir / "settings.json").read_text()), (pdir / "assets_version").read_text()
        finally:
            shutil.rmtree(d, ignore_errors=True)

    def on_ok(pr):
        old, new, ver = pr.out
        bad = []
        for k, v in old.items():
            if k not in new or new[k] != v:
                bad.append("user value %s=%r changed to %r" % (k, v, new.get(k)))
        for k, v in D.items():
            if k not in new:
                bad.append("default key %s not added" % k)
            elif k not in old and new[k] != v:
                bad.append("added key %s has value %r instead of the default" % (k, new[k]))
        import evo
        if ver != evo.__version__:
            bad.append("version marker not updated")
        runner.check_obligations(col, pr.ctx, {"upgrade_adds_missing_defaults_and_keeps_user_values": z3.BoolVal(not bad)}, {},
                                 lambda v: (bool(bad), "; ".join(bad[:3])), descr="upgrade")
    runner.explore_case(col, fn, [], on_ok, None, max_paths=6000)


def run_mergejson(case, col):
    MC = common.R("evo.main_config")

    def fn():
        c = sc.ctx()
        soft = c.choose(2, "soft") == 1
        variant = c.choose(3, "second")
        d = scratch()
        try:
            a, b = os.path.join(d, "a.json"), os.path.join(d, "b.json")
            first = {"x": 1, "y": [1, 2], "z": False, "w": 0}
            second = [{"x": 2, "new": "n"}, {"z": True, "w": 5, "y": []}, {}][variant]
            json.dump(first, open(a, "w"))
            json.dump(second, open(b, "w"))
            MC.merge_json_union(a, b, soft)
            return soft, first, second, json.load(open(a)), json.load(open(b))
        finally:
            shutil.rmtree(d, ignore_errors=True)

    def on_ok(pr):
        soft, first, second, res, second_after = pr.out
        exp = dict(first)
        for k, v in second.items():
            if not soft or k not in first:
                exp[k] = v
        runner.check_obligations(col, pr.ctx, {"merge_result": z3.BoolVal(res == exp), "second_file_untouched": z3.BoolVal(second_after == second)},
                                 {}, lambda v: (res != exp, "merge gives %r expected %r" % (res, exp)), descr="merge soft=%s" % soft)
    runner.explore_case(col, fn, [], on_ok, None)


def run_lock(case, col):
    ST = common.R("evo.tools.settings")

    def fn():
        sc.ctx().choose(1, "dummy")
        c = ST.SettingsContainer({"a": 1, "b": [1]})
        out = {}
        try:
            c.unknown_param = 3
            out["added"] = True
        except ST.SettingsException:
            out["added"] = False
        c.a = 2
        out["a"] = c.a
        try:
            c.nope
            out["get"] = True
        except ST.SettingsException:
            out["get"] = False
        c.update_existing_keys({"a": 5, "zzz": 1})
        out["after_update"] = dict((k, v) for k, v in c.items() if k != "__locked__")
        return out

    def on_ok(pr):
        o = pr.out
        ok = (o["added"] is False and o["a"] == 2 and o["get"] is False and o["after_update"] == {"a": 5, "b": [1]})
        runner.check_obligations(col, pr.ctx, {"unknown_parameters_cannot_be_added_or_read": z3.BoolVal(ok)}, {},
                                 lambda v: (not ok, "locked container: %r" % (o,)), descr="lock")
    runner.explore_case(col, fn, [], on_ok, None)


def run_mergeconfig(case, col):
    EP = common.R("evo.entry_points")
    ST = common.R("evo.tools.settings")

    def fn():
        c = sc.ctx()
        with_cfg = c.choose(2, "with_config") == 1
        d = scratch()
        try:
            cfg = os.path.join(d, "c.json")
            json.dump({"align": True, "t_max_diff": 0.5, "plot_linewidth": 7.5, "not_a_setting_nor_arg": 1}, open(cfg, "w"))
            args = argparse.Namespace(align=False, t_max_diff=0.01, correct_scale=True, config=cfg if with_cfg else None)
            before_file = ST.DEFAULT_PATH.read_text()
            before_lw = ST.SETTINGS.plot_linewidth
            keys_before = set(ST.SETTINGS.keys())
            try:
                merged = EP.merge_config(args)
                return with_cfg, vars(merged), ST.SETTINGS.plot_linewidth, before_lw, set(ST.SETTINGS.keys()) == keys_before, \
                    ST.DEFAULT_PATH.read_text() == before_file
            finally:
                ST.SETTINGS.plot_linewidth = before_lw
        finally:
            shutil.rmtree(d, ignore_errors=True)

    def on_ok(pr):
        with_cfg, merged, lw, lw0, same_keys, file_same = pr.out
        if with_cfg:
            ok = (merged["align"] is True and merged["t_max_diff"] == 0.5 and merged["correct_scale"] is True and lw == 7.5
                  and same_keys and file_same)
        else:
            ok = merged["align"] is False and merged["t_max_diff"] == 0.01 and lw == lw0 and file_same
        runner.check_obligations(col, pr.ctx, {"config_file_has_priority_and_overrides_settings_for_this_run_only": z3.BoolVal(ok)}, {},
                                 lambda v: (not ok, "merge_config: %r" % (pr.out,)), descr="merge_config with_cfg=%s" % with_cfg)
    runner.explore_case(col, fn, [], on_ok, None)


# --------------------------------------------------------------------------
LITS = ["10", "0", "-3", "0.5", "-0.25", "1e-3", "-1e2", "7.0", ".5"]


def typed_options(cmd):
    P = common.R("evo.main_%s_parser" % cmd).parser()
    sub = None
    for a in P._actions:
        if isinstance(a, argparse._SubParsersAction):
            sub = a.choices["tum"]
    out = []
    for a in sub._actions:
        longs = [o for o in a.option_strings if o.startswith("--")]
        if not longs or a.dest == "help":
            continue
        out.append(dict(opt=longs[0], dest=a.dest, type=a.type, nargs=a.nargs, const=isinstance(a, argparse._StoreTrueAction),
                        choices=a.choices))
    base = {"ape": ["tum", "r.txt", "e.txt"], "rpe": ["tum", "r.txt", "e.txt"], "traj": ["tum", "t.txt"]}[cmd]
    return P, base, out


def run_genopts(case, col):
    cmd = case["cmd"]
    MC = common.R("evo.main_config")
    P, base, opts = typed_options(cmd)

    def fn():
        c = sc.ctx()
        o = opts[c.choose(len(opts), "option")]
        if o["const"]:
            argv = [o["opt"]]
        elif o["type"] in (int, float):
            n = o["nargs"] if isinstance(o["nargs"], int) else 1
            lits = [x for x in LITS if o["type"] is float or literal_value(x) is not None and isinstance(literal_value(x), int) and "." not in x and "e" not in x]
            argv = [o["opt"]] + [lits[c.choose(len(lits), "lit%d" % k)] for k in range(n)]
        elif o["choices"]:
            ch = list(o["choices"])
            argv = [o["opt"], ch[c.choose(len(ch), "choice")]]
        else:
            argv = [o["opt"], "some_value.txt"]
        return o, argv, MC.generate(argv)

    def on_ok(pr):
        o, argv, data = pr.out
        bad = []
        try:
            import contextlib, io
            with contextlib.redirect_stderr(io.StringIO()):
                ns = P.parse_args(base + argv)
            direct = getattr(ns, o["dest"])
        except SystemExit:
            direct = None
            bad = []           # argparse itself refuses this literal for the option: nothing to compare
            runner.check_obligations(col, pr.ctx, {"comparison_skipped_argparse_refuses": z3.BoolVal(True)}, {}, lambda v: (False, ""))
            return
        key = o["opt"][2:]
        if key != o["dest"]:
            bad.append("option %s has dest %s" % (o["opt"], o["dest"]))
        if set(data) != {key}:
            bad.append("generated keys %r for %r" % (sorted(data), argv))
        else:
            got = data[key]
            if got != direct:
                bad.append("generated %r, argparse gives %r" % (got, direct))
            elif o["type"] is int and (type(got) is not int if not isinstance(got, list) else any(type(x) is not int for x in got)):
                bad.append("integer option %s generated as %r (%s)" % (o["opt"], got, type(got).__name__))
            elif isinstance(direct, bool) and got is not direct:
                bad.append("flag generated as %r" % (got,))
        runner.check_obligations(col, pr.ctx, {"generated_config_equals_direct_arguments": z3.BoolVal(not bad)}, {},
                                 lambda v: (bool(bad), "evo_config generate %s: %s" % (" ".join(argv), "; ".join(bad))),
                                 descr="%s %r" % (cmd, argv))
    runner.explore_case(col, fn, [], on_ok, None, max_paths=20000)


GEN_ALPHA = ["--plot", "--align", "--t_offset", "--n_to_align", "--motion_filter", "--pose_relation", "-0.5", "3", "2.5", "-7", "angle_deg", "1e-2"]


def gen_oracle(argv, data):
    """independent reading: tokens starting with '-' that are not numbers are options; following non-option tokens are values"""
    exp = {}
    i = 0
    def is_opt(t):
        return t.startswith("-") and literal_value(t) is None
    while i < len(argv):
        if is_opt(argv[i]):
            key = argv[i].lstrip("-") if argv[i].startswith("--") else argv[i][1:]
            key = argv[i][2:] if argv[i].startswith("--") else argv[i][1:]
            vals = []
            j = i + 1
            while j < len(argv) and not is_opt(argv[j]):
                lv = literal_value(argv[j])
                vals.append(lv if lv is not None else argv[j])
                j += 1
            exp[key] = True if not vals else (vals[0] if len(vals) == 1 else vals)
            i = j
        else:
            i += 1
    bad = []
    if set(exp) != set(data):
        bad.append("keys %r expected %r" % (sorted(data), sorted(exp)))
    else:
        for k in exp:
            a, b = data[k], exp[k]
            same = a == b and (type(a) is type(b)) and (not isinstance(a, list) or all(type(x) is type(y) for x, y in zip(a, b)))
            if not same:
                bad.append("%s: %r expected %r" % (k, a, b))
    return bad


def run_genlists(case, col):
    MC = common.R("evo.main_config")
    n = len(GEN_ALPHA)

    def fn():
        c = sc.ctx()
        L = 1 + c.choose(3, "length")
        argv = [GEN_ALPHA[c.choose(n, "g%d" % k)] for k in range(L)]
        return argv, MC.generate(argv)

    def on_ok(pr):
        argv, data = pr.out
        bad = gen_oracle(argv, data)
        runner.check_obligations(col, pr.ctx, {"generate_reads_options_values_numbers": z3.BoolVal(not bad)}, {},
                                 lambda v: (bool(bad), "generate %r -> %r: %s" % (argv, data, "; ".join(bad))), descr=repr(argv))
    runner.explore_case(col, fn, [], on_ok, None, max_paths=20000)


# --------------------------------------------------------------------------
CH_SRC = '''
import sys
sys.path.insert(0, %(repo)r)
from evo.main_config import generate


def int_option_keeps_int(n: int) -> bool:
    """
    pre: -10**6 < n < 10**6
    post: _
    """
    d = generate(["--n_to_align", str(n)])
    v = d.get("n_to_align")
    return type(v) is int and v == n and len(d) == 1


def negative_float_is_a_value(k: int) -> bool:
    """
    pre: 0 < k < 10**4
    post: _
    """
    d = generate(["--t_offset", "-" + str(k) + ".5"])
    return set(d) == {"t_offset"} and d["t_offset"] == -(k + 0.5)
'''


def run_crosshair(case, col):
    """bug-hunting pass: counterexamples only"""
    d = scratch()
    try:
        f = os.path.join(d, "ch_generate.py")
        with open(f, "w") as fh:
            fh.write(CH_SRC % dict(repo=os.environ.get("EVOVERIF_REPO", "/repo")))
        env = dict(os.environ)
        exe = os.path.join(os.path.dirname(sys.executable), "crosshair")
        cmd = [exe, "check", "--per_condition_timeout", "15", "--report_all", f] if os.path.exists(exe) else \
            [sys.executable, "-m", "crosshair", "check", "--per_condition_timeout", "15", "--report_all", f]
        try:
            p = subprocess.run(cmd, capture_output=True, text=True, timeout=180, env=env)
            out = p.stdout + p.stderr
        except Exception as e:      # noqa: BLE001
            col.note("crosshair not run: %s" % e)
            out = ""
        col.d["paths"] += 1
        col.d["distinct_paths"] += 1
        col.d["outcomes"]["crosshair"] = 1
        MC = common.R("evo.main_config")
        found = re.findall(r"false when calling (\\w+)\\((\\w+)\\s*=\\s*(-?\\d+)\\)", out)
        confirmed = len(re.findall(r"Confirmed over all paths", out))
        col.note("crosshair: %d counterexamples, %d conditions confirmed over all paths; output: %s" % (len(found), confirmed, out[-300:].replace("\\n", " | ")))
        col.d["obligations"] += 2
        viol = []
        for fn_, arg, val in found:
            n = int(val)
            if fn_ == "int_option_keeps_int":
                dd = MC.generate(["--n_to_align", str(n)])
                v = dd.get("n_to_align")
                if not (type(v) is int and v == n and len(dd) == 1):
                    viol.append("generate(['--n_to_align', '%d']) = %r" % (n, dd))
            else:
                dd = MC.generate(["--t_offset", "-%d.5" % n])
                if not (set(dd) == {"t_offset"} and dd["t_offset"] == -(n + 0.5)):
                    viol.append("generate(['--t_offset', '-%d.5']) = %r" % (n, dd))
        if viol:
            for v in viol[:2]:
                col.d["violations"].append(dict(ob="crosshair counterexample", witness={}, detail=v, descr="crosshair", known=None, decisions=[]))
        else:
            col.d["discharged"] += 2      # no replayable counterexample (a non-confirmation is not a verdict either way)
        col.sample(dict(crosshair_counterexamples=found, confirmed=confirmed))
    finally:
        shutil.rmtree(d, ignore_errors=True)


def replay_file(rec):
    return False, "re-run ./check C18"
