"""C11 -- sub-sampling, cropping, splitting and merging select exactly the specified poses.

Real functions executed: PosePath3D.downsample / motion_filter / reduce_to_ids, filters.filter_by_motion,
PoseTrajectory3D.reduce_to_time_range / split_time_gaps / split_distance_gaps / split_speed_outliers / _jumps /
speeds, trajectory.merge, geometry.accumulated_distances.
"""
from fractions import Fraction
import math

import numpy as rnp
import z3

from evoverif import runner, symcore as sc, symnp, symrot, stubs
from evoverif.symcore import SymReal, toz
from . import common
from .common import SymTraj, zR
from .c10 import step_atoms, angle_between, acc, conc_angle

PROPERTY = "C11"
FUNCTIONS = ["PosePath3D.downsample", "PosePath3D.motion_filter", "filters.filter_by_motion", "PosePath3D.reduce_to_ids",
             "PoseTrajectory3D.reduce_to_time_range", "split_time_gaps", "split_distance_gaps", "split_speed_outliers",
             "PosePath3D._jumps", "PoseTrajectory3D.speeds", "trajectory.calc_speed", "trajectory.merge"]
BOUNDS = {"quick": "downsample: all counts 1..7 x targets 0..count+2; motion filter / crop / splits: N <= 4 symbolic poses, symbolic "
                   "thresholds; merge: 2 trajectories x 2 poses and 3 x 1", "thorough": "downsample counts up to 14; N <= 5; merge 3 x 2"}
STUBS = ["numpy.linspace(..., dtype=int) with concrete arguments is numpy's own", "sqrt stub", "acos*"]
ASSUMPTIONS = ["valid trajectories (unit quaternions, strictly increasing stamps)", "thresholds >= 0"]
OUTSIDE = ["linspace behaviour for counts beyond the bound (spec: |id_k - k(n-1)/(N-1)| < 1, see DESIGN C11)", "N beyond the bound"]


def worker_init():
    common.ensure_loaded()


def cases(tier, seed):
    out = [dict(name="rotation_lemmas", kind="lemmas")]
    cmax = 7 if tier == "quick" else 14
    out.append(dict(name="downsample_counts_1_to_%d" % cmax, kind="downsample", cmax=cmax))
    nmax = 4 if tier == "quick" else 5
    for n in range(2, nmax + 1):
        out.append(dict(name="motion_filter_N%d_rad" % n, kind="motion", n=n, deg=False))
    out.append(dict(name="motion_filter_N3_deg", kind="motion", n=3, deg=True))
    out.append(dict(name="motion_filter_refusals", kind="motion_refuse"))
    for n in range(1, nmax + 1):
        out.append(dict(name="crop_N%d" % n, kind="crop", n=n))
        out.append(dict(name="split_time_gaps_N%d" % n, kind="split", n=n, how="time"))
        out.append(dict(name="split_distance_gaps_N%d" % n, kind="split", n=n, how="distance"))
        out.append(dict(name="split_speed_outliers_N%d" % n, kind="split", n=n, how="speed"))
    out.append(dict(name="merge_2x2", kind="merge", sizes=[2, 2]))
    out.append(dict(name="merge_3x1", kind="merge", sizes=[1, 1, 1]))
    out.append(dict(name="merge_1", kind="merge", sizes=[2]))
    if tier != "quick":
        out.append(dict(name="merge_3x2", kind="merge", sizes=[2, 2, 2]))
    return out


def run_case(case, col):
    if case["kind"] == "lemmas":
        from evoverif import lemmas
        return lemmas.lemma_case(col)
    globals()["run_" + case["kind"]](case, col)


def T():
    return common.S("evo.core.trajectory")


def kept_together(t, Tj, ids):
    """concrete check: pose k of t holds exactly the terms of input pose ids[k] (position, quaternion, stamp)"""
    if not (t.num_poses == len(ids) and len(t.positions_xyz) == len(ids) and len(t.orientations_quat_wxyz) == len(ids)
            and len(t.timestamps) == len(ids)):
        return False
    for k, i in enumerate(ids):
        if not (common.same_terms(t.positions_xyz[k], [SymReal(v) for v in Tj.p[i]])
                and common.same_terms(t.orientations_quat_wxyz[k], [SymReal(v) for v in Tj.q[i]])
                and common.same_terms([t.timestamps[k]], [SymReal(Tj.t[i])])):
            return False
    return True


def ids_of(t, Tj):
    """indices of the input poses a facade trajectory consists of (by stamp term identity), or None"""
    out = []
    for k in range(len(t.timestamps)):
        m = [i for i in range(Tj.n) if toz(t.timestamps[k]).eq(Tj.t[i])]
        if len(m) != 1:
            return None
        out.append(m[0])
    return out


def conc_ids(t, t0):
    out = []
    for k in range(t.num_poses):
        m = [i for i in range(t0.num_poses) if t0.timestamps[i] == t.timestamps[k] and rnp.array_equal(t0.positions_xyz[i], t.positions_xyz[k])
             and rnp.array_equal(t0.orientations_quat_wxyz[i], t.orientations_quat_wxyz[k])]
        if not m:
            return None
        out.append(m[0])
    return out


# --------------------------------------------------------------------------
def run_downsample(case, col):
    cmax = case["cmax"]
    for n in range(1, cmax + 1):
        Tj = SymTraj("a", n)
        for N in range(0, n + 3):
            def fn(N=N, Tj=Tj):
                t = Tj.build("quat")
                t.poses_se3
                t.downsample(N)
                return t

            def replay(vals, N=N, Tj=Tj, n=n):
                Tr = common.R("evo.core.trajectory")
                t, t0 = Tj.concrete(vals), Tj.concrete(vals)
                try:
                    t.downsample(N)
                except Tr.TrajectoryException:
                    return (N >= 1), "refused"
                ids = conc_ids(t, t0)
                return (not downsample_ok(ids, n, N)), "kept ids %r for count %d target %d" % (ids, n, N)

            def on_ok(pr, N=N, Tj=Tj, n=n):
                t = pr.out
                ids = ids_of(t, Tj)
                g = {"downsample_%d_to_%d_selects_evenly_spaced_ids" % (n, N): z3.BoolVal(ids is not None and N >= 1 and downsample_ok(ids, n, N)),
                     "kept_poses_keep_pose_orientation_stamp_together": z3.BoolVal(ids is not None and kept_together(t, Tj, ids)),
                     "pose_matrices_follow": z3.BoolVal(ids is not None and len(t.poses_se3) == len(ids))}
                runner.check_obligations(col, pr.ctx, g, Tj.inputs(), replay, descr="downsample %d -> %d ids=%r" % (n, N, ids))

            def on_exc(pr, N=N, n=n, Tj=Tj, replay=replay):
                if pr.status != "exc:TrajectoryException":
                    col.d["inconclusive"].append(dict(ob="downsample %d -> %d" % (n, N), why="facade raised %s: %s" % (pr.status, pr.exc)))
                    return
                ok = N < 1 and n > N
                runner.check_obligations(col, pr.ctx, {"downsample_%d_to_%d_refused_only_below_one" % (n, N): z3.BoolVal(ok)}, Tj.inputs(),
                                         replay)
            runner.explore_case(col, fn, Tj.assumptions(), on_ok, on_exc, pins=common.pins_for(Tj, n=1))


def downsample_ok(ids, n, N):
    if ids is None:
        return False
    K = min(N, n)
    if n <= N:
        return ids == list(range(n))
    if len(ids) != K or ids[0] != 0 or any(b <= a for a, b in zip(ids, ids[1:])):
        return False
    if N >= 2 and ids[-1] != n - 1:
        return False
    if N >= 2:
        return all(abs(Fraction(ids[k]) - Fraction(k * (n - 1), N - 1)) < 1 for k in range(K))
    return True


# --------------------------------------------------------------------------
def run_motion(case, col):
    n, deg = case["n"], case["deg"]
    Tj = SymTraj("a", n)
    zd, za = z3.Real("dist_thr"), z3.Real("angle_thr")
    inputs = dict(Tj.inputs(), dist_thr=zd, angle_thr=za)
    assume = Tj.assumptions() + [zd >= 0, za >= 0]
    k = sc.q_of(stubs.PI / 180) if deg else z3.RealVal(1)

    def fn():
        t = Tj.build("quat")
        t.poses_se3
        t.motion_filter(SymReal(zd), SymReal(za), deg)
        return t

    def replay(vals):
        t, t0 = Tj.concrete(vals, "se3"), Tj.concrete(vals, "se3")
        d, a = float(vals["dist_thr"]), float(vals["angle_thr"])
        t.motion_filter(d, a, deg)
        ids = conc_ids(t, t0)
        if ids is None:
            return True, "kept poses are not input poses"
        ar = math.radians(a) if deg else a
        P = t0.poses_se3
        st = [float(rnp.linalg.norm(P[i + 1][:3, 3] - P[i][:3, 3])) for i in range(n - 1)]
        eps = 1e-9 * max(1.0, sum(st))
        must, may = [0], [0]
        # exact recomputation with a don't-care band: enumerate consistent selections
        ok = check_motion(ids, st, P, d, ar, eps)
        return (not ok), "kept ids %r (dist_thr=%r, angle_thr=%r rad)" % (ids, d, ar)

    def on_ok(pr):
        t = pr.out
        ids = ids_of(t, Tj)
        g = {"result_consists_of_input_poses_in_order": z3.BoolVal(ids is not None and ids == sorted(set(ids)) and kept_together(t, Tj, ids)),
             "first_pose_always_kept": z3.BoolVal(ids is not None and len(ids) > 0 and ids[0] == 0)}
        if ids is not None and ids and ids[0] == 0 and ids == sorted(set(ids)):
            steps = step_atoms(Tj, n)
            cl = []
            last = 0
            for i in range(1, n):
                cond = z3.Or(acc(steps, last, i) >= zd, angle_between(Tj, last, i) >= za * k)
                if i in ids:
                    cl.append(cond)
                    last = i
                else:
                    cl.append(z3.Not(cond))
            g["later_pose_kept_exactly_if_distance_or_angle_since_last_kept_reached"] = z3.And(cl)
        runner.check_obligations(col, pr.ctx, g, inputs, replay, descr=case["name"] + " ids=%r" % (ids,), timeout_ms=60000)

    runner.explore_case(col, fn, assume, on_ok, None, timeout_ms=60000, pins=common.pins_for(Tj), max_paths=4000)


def check_motion(ids, st, P, d, ar, eps):
    if not ids or ids[0] != 0 or ids != sorted(set(ids)):
        return False
    last = 0
    n = len(P)
    for i in range(1, n):
        dist = sum(st[last:i])
        ang = conc_angle(P[last], P[i])
        reach = dist >= d + eps or ang >= ar + 1e-7
        maybe = dist >= d - eps or ang >= ar - 1e-7
        if i in ids:
            if not maybe:
                return False
            last = i
        else:
            if reach:
                return False
    return True


def run_motion_refuse(case, col):
    Tj1, Tj2 = SymTraj("a", 1), SymTraj("b", 2)
    for name, Tj, args in (("single_pose", Tj1, (1, 1)), ("negative_distance", Tj2, (-1, 1)), ("negative_angle", Tj2, (1, -1))):
        def fn(Tj=Tj, args=args):
            t = Tj.build("se3")
            t.motion_filter(args[0], args[1])
            return t

        def on_ok(pr, name=name, Tj=Tj):
            runner.check_obligations(col, pr.ctx, {"motion_filter_refuses_" + name: z3.BoolVal(False)}, Tj.inputs(), lambda v: (True, "accepted"))

        def on_exc(pr, name=name, Tj=Tj):
            runner.check_obligations(col, pr.ctx, {"motion_filter_refuses_" + name: z3.BoolVal(pr.status == "exc:FilterException")}, Tj.inputs(),
                                     lambda v: (True, "wrong exception"))
        runner.explore_case(col, fn, Tj.assumptions(), on_ok, on_exc, pins=common.pins_for(Tj))


# --------------------------------------------------------------------------
def run_crop(case, col):
    n = case["n"]
    Tj = SymTraj("a", n)
    zs, ze = z3.Real("t_start"), z3.Real("t_end")
    inputs = dict(Tj.inputs(), t_start=zs, t_end=ze)
    for variant in ("both", "start_only", "end_only", "none"):
        def fn(variant=variant):
            t = Tj.build("quat")
            t.poses_se3
            t.reduce_to_time_range(SymReal(zs) if variant in ("both", "start_only") else None,
                                   SymReal(ze) if variant in ("both", "end_only") else None)
            return t

        def lo(variant=variant):
            return zs if variant in ("both", "start_only") else Tj.t[0]

        def hi(variant=variant):
            return ze if variant in ("both", "end_only") else Tj.t[-1]

        def replay(vals, variant=variant):
            Tr = common.R("evo.core.trajectory")
            t, t0 = Tj.concrete(vals), Tj.concrete(vals)
            s = float(vals["t_start"]) if variant in ("both", "start_only") else None
            e = float(vals["t_end"]) if variant in ("both", "end_only") else None
            s2 = s if s is not None else t0.timestamps[0]
            e2 = e if e is not None else t0.timestamps[-1]
            try:
                t.reduce_to_time_range(s, e)
            except Tr.TrajectoryException:
                return (not s2 > e2), "refused"
            if s2 > e2:
                return True, "start > end accepted"
            exp = [i for i in range(n) if s2 <= t0.timestamps[i] <= e2]
            got = conc_ids(t, t0) if t.num_poses else []
            return got != exp, "kept %r expected %r" % (got, exp)

        def on_ok(pr, variant=variant, lo=lo, hi=hi, replay=replay):
            t = pr.out
            ids = ids_of(t, Tj)
            g = {"kept_poses_are_input_poses_in_order": z3.BoolVal(ids is not None and ids == sorted(set(ids)) and kept_together(t, Tj, ids)
                                                                   and len(t.poses_se3) == len(ids)),
                 "start_not_after_end": lo() <= hi()}
            if ids is not None:
                g["kept_exactly_the_poses_with_start_le_t_le_end"] = z3.And(
                    [(z3.And(lo() <= Tj.t[i], Tj.t[i] <= hi()) if i in ids else z3.Not(z3.And(lo() <= Tj.t[i], Tj.t[i] <= hi())))
                     for i in range(n)])
            runner.check_obligations(col, pr.ctx, g, inputs, replay, descr="crop %s N=%d ids=%r" % (variant, n, ids))

        def on_exc(pr, lo=lo, hi=hi, replay=replay, variant=variant):
            ok = pr.status == "exc:TrajectoryException"
            runner.check_obligations(col, pr.ctx, {"refused_only_if_start_after_end": (lo() > hi()) if ok else z3.BoolVal(False)},
                                     inputs, replay, descr="crop refusal " + variant)
        runner.explore_case(col, fn, Tj.assumptions(), on_ok, on_exc, pins=common.pins_for(Tj, n=1))


# --------------------------------------------------------------------------
def run_split(case, col):
    n, how = case["n"], case["how"]
    Tj = SymTraj("a", n)
    zt = z3.Real("threshold")
    inputs = dict(Tj.inputs(), threshold=zt)
    assume = Tj.assumptions() + [zt >= 0]

    def fn():
        t = Tj.build("se3")
        f = {"time": t.split_time_gaps, "distance": t.split_distance_gaps, "speed": t.split_speed_outliers}[how]
        return f(SymReal(zt)), t

    def step_value_terms():
        steps = step_atoms(Tj, n)
        if how == "time":
            return [Tj.t[i + 1] - Tj.t[i] for i in range(n - 1)]
        if how == "distance":
            return steps
        return [steps[i] / (Tj.t[i + 1] - Tj.t[i]) for i in range(n - 1)]

    def replay(vals):
        t0 = Tj.concrete(vals, "se3")
        th = float(vals["threshold"])
        f = {"time": t0.split_time_gaps, "distance": t0.split_distance_gaps, "speed": t0.split_speed_outliers}[how]
        parts = f(th)
        ref = Tj.concrete(vals, "se3")
        ids = []
        cuts = []
        for p in parts:
            for k in range(p.num_poses):
                m = [i for i in range(n) if ref.timestamps[i] == p.timestamps[k] and rnp.allclose(ref.poses_se3[i], p.poses_se3[k], atol=0, rtol=0)]
                if not m:
                    return True, "a part contains a pose that is not an input pose"
                ids.append(m[0])
            cuts.append(len(ids))
        if ids != list(range(n)):
            return True, "concatenating the parts gives poses %r" % (ids,)
        P, ts = ref.positions_xyz, ref.timestamps
        bad = []
        for i in range(n - 1):
            dist = float(rnp.linalg.norm(P[i + 1] - P[i]))
            v = {"time": ts[i + 1] - ts[i], "distance": dist, "speed": dist / (ts[i + 1] - ts[i])}[how]
            cut = (i + 1) in cuts[:-1]
            if cut and v < th - 1e-9 * max(1.0, abs(th)):
                bad.append("cut at a step of %r <= threshold %r" % (v, th))
            if not cut and v > th + 1e-9 * max(1.0, abs(th)):
                bad.append("step %d of %r > threshold %r left inside a part" % (i, v, th))
        return bool(bad), "; ".join(bad) or "ok"

    def on_ok(pr):
        parts, t = pr.out
        ids, bounds = [], []
        okp = True
        for p in parts:
            pi = ids_of(p, Tj)
            if pi is None or len(p.poses_se3) != len(pi):
                okp = False
                break
            for k, i in enumerate(pi):
                okp &= common.same_terms(rnp.asarray(p.poses_se3[k])[:3, 3], [SymReal(v) for v in Tj.p[i]])
            ids += pi
            bounds.append(len(ids))
        g = {"parts_concatenate_to_the_trajectory": z3.BoolVal(okp and ids == list(range(n))),
             "no_empty_part": z3.BoolVal(all(p.num_poses > 0 for p in parts))}
        if okp and ids == list(range(n)):
            vals_ = step_value_terms()
            cuts = set(bounds[:-1])
            g["cut_exactly_at_steps_exceeding_the_threshold"] = z3.And(
                [(vals_[i] > zt) if (i + 1) in cuts else z3.Not(vals_[i] > zt) for i in range(n - 1)]) if n > 1 else z3.BoolVal(True)
        runner.check_obligations(col, pr.ctx, g, inputs, replay, descr="%s N=%d parts=%r" % (case["name"], n, [p.num_poses for p in parts]),
                                 timeout_ms=60000)

    runner.explore_case(col, fn, assume, on_ok, None, timeout_ms=60000, pins=common.pins_for(Tj))


# --------------------------------------------------------------------------
def run_merge(case, col):
    sizes = case["sizes"]
    Ts = [SymTraj("m%d" % k, s) for k, s in enumerate(sizes)]
    inputs = {}
    assume = []
    for t in Ts:
        inputs.update(t.inputs())
        assume += t.assumptions()
    allst = [(k, i) for k, t in enumerate(Ts) for i in range(t.n)]
    # equal stamps across trajectories are allowed: the clauses below leave the order among ties open

    def fn():
        objs = [t.build("quat") for t in Ts]
        snaps = [(rnp.asarray(o.positions_xyz).copy(), rnp.asarray(o.timestamps).copy()) for o in objs]
        m = T().merge(objs)
        return m, objs, snaps

    def replay(vals):
        Tr = common.R("evo.core.trajectory")
        objs = [t.concrete(vals) for t in Ts]
        ref = [t.concrete(vals) for t in Ts]
        m = Tr.merge(objs)
        tot = sum(sizes)
        bad = []
        if m.num_poses != tot or len(m.timestamps) != tot:
            return True, "merged trajectory has %d poses for %d inputs" % (m.num_poses, tot)
        if any(m.timestamps[i] > m.timestamps[i + 1] for i in range(tot - 1)):
            bad.append("not sorted by time")
        pool = [(r.timestamps[i], tuple(r.positions_xyz[i]), tuple(r.orientations_quat_wxyz[i])) for r in ref for i in range(r.num_poses)]
        got = [(m.timestamps[i], tuple(m.positions_xyz[i]), tuple(m.orientations_quat_wxyz[i])) for i in range(tot)]
        if sorted(pool) != sorted(got):
            bad.append("a pose lost its own timestamp / position / orientation")
        return bool(bad), "; ".join(bad) or "ok"

    def on_ok(pr):
        m, objs, snaps = pr.out
        tot = sum(sizes)
        g = {"union_has_all_poses": z3.BoolVal(m.num_poses == tot and len(m.timestamps) == tot and len(m.positions_xyz) == tot
                                               and len(m.orientations_quat_wxyz) == tot)}
        if m.num_poses == tot and len(m.timestamps) == tot:
            g["sorted_by_time"] = z3.And([toz(m.timestamps[i]) <= toz(m.timestamps[i + 1]) for i in range(tot - 1)]) if tot > 1 else z3.BoolVal(True)
            src = []
            for i in range(tot):
                hit = [(k, j) for k, t in enumerate(Ts) for j in range(t.n) if toz(m.timestamps[i]).eq(t.t[j])]
                if len(hit) != 1:
                    src = None
                    break
                src.append(hit[0])
            ok = src is not None and sorted(src) == sorted(allst)
            if ok:
                for i, (k, j) in enumerate(src):
                    ok &= common.same_terms(m.positions_xyz[i], [SymReal(v) for v in Ts[k].p[j]])
                    ok &= common.same_terms(m.orientations_quat_wxyz[i], [SymReal(v) for v in Ts[k].q[j]])
            g["every_pose_keeps_its_own_stamp_position_orientation"] = z3.BoolVal(bool(ok))
        g["inputs_unmodified"] = z3.BoolVal(all(common.same_terms(o.positions_xyz, s[0]) and common.same_terms(o.timestamps, s[1])
                                                for o, s in zip(objs, snaps)))
        runner.check_obligations(col, pr.ctx, g, inputs, replay, descr=case["name"])

    runner.explore_case(col, fn, assume, on_ok, None, pins=None, max_paths=3000)


def replay_file(rec):
    return False, "re-run ./check C11"
