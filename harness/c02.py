"""C02 -- RPE values equal the definition over exactly the selected pairs.

Real functions executed: metrics.RPE.__init__/process_data/rpe_base, id_pairs_from_delta,
filters.filter_pairs_by_index / by_path, lie_algebra.relative_se3, so3_log_angle.
Decomposition (DESIGN 2.5 item 6): (1) the relative error pose E_k that evo stores equals
(Q_i^-1 Q_j)^-1 (P_i^-1 P_j) entrywise; (2) the value is f(E_k) for evo's own E_k.
"""
from fractions import Fraction
import math

import numpy as rnp
import z3

from evoverif import runner, symcore as sc, symnp, symrot, stubs
from evoverif.symcore import SymReal, toz
from . import common
from .common import SymTraj, zR, zT, zmat_mul, zmat_vec
from .c01 import zpose, zinv

PROPERTY = "C02"
FUNCTIONS = ["evo.core.metrics.RPE.__init__", "RPE.process_data", "RPE.rpe_base", "metrics.id_pairs_from_delta",
             "filters.filter_pairs_by_index", "filters.filter_pairs_by_path", "lie_algebra.relative_se3", "so3_log_angle"]
BOUNDS = {"quick": "N <= 3 poses, delta in frames 1..2 and symbolic metric delta, consecutive / all pairs, 7 relations, both storage modes",
          "thorough": "N <= 4, delta frames 1..3"}
STUBS = ["acos* for rotation angles", "norm: sqrt stub", "eigh stub for quaternion extraction"]
ASSUMPTIONS = ["unit quaternions"]
OUTSIDE = ["angle-unit deltas (selection owned by C10)", "rounding", "N beyond the bound"]
RELS = ["translation_part", "rotation_part", "full_transformation", "rotation_angle_rad", "rotation_angle_deg",
        "point_distance", "point_distance_error_ratio"]


def worker_init():
    common.ensure_loaded()


def M():
    return common.S("evo.core.metrics")


def U():
    return common.S("evo.core.units")


def frame_pairs(n, delta, allp):
    if allp:
        return [(i, i + delta) for i in range(n) if i + delta < n]
    ch = list(range(0, n, delta))
    return list(zip(ch, ch[1:]))


def cases(tier, seed):
    out = [dict(name="rotation_lemmas", kind="lemmas")]
    nmax = 3 if tier == "quick" else 4
    for rel in RELS:
        for mode in ("se3", "quat"):
            for n in range(2, nmax + 1):
                for delta in range(1, n):
                    for allp in (False, True):
                        if tier == "quick" and n == 3 and mode == "quat" and rel not in ("translation_part", "point_distance_error_ratio"):
                            continue
                        out.append(dict(name="def_%s_%s_N%d_d%d_%s" % (rel, mode, n, delta, "all" if allp else "cons"),
                                        kind="def", rel=rel, mode=mode, n=n, delta=delta, all_pairs=allp))
        out.append(dict(name="drift_%s" % rel, kind="drift", rel=rel, n=2))
        out.append(dict(name="same_motion_%s" % rel, kind="same", rel=rel, n=2))
    for a, b in ((2, 3), (3, 2)):
        out.append(dict(name="unequal_length_%d_%d" % (a, b), kind="unequal", a=a, b=b))
    out.append(dict(name="no_pairs_refused", kind="nopairs"))
    out.append(dict(name="bad_delta_refused", kind="baddelta"))
    for n in ([3] if tier == "quick" else [3, 4]):
        for allp in (False, True):
            for fromref in (False, True):
                out.append(dict(name="metric_delta_N%d_%s_%s" % (n, "all" if allp else "cons", "ref" if fromref else "est"),
                                kind="metric", n=n, all_pairs=allp, from_ref=fromref))
    return out


def run_case(case, col):
    k = case["kind"]
    if k == "lemmas":
        from evoverif import lemmas
        return lemmas.lemma_case(col)
    globals()["run_" + k](case, col)


# --------------------------------------------------------------------------
def zE(Rf, Es, i, j):
    Qrel = zmat_mul(zinv(Rf.q[i], Rf.p[i]), zpose(Rf.q[j], Rf.p[j]))
    Prel = zmat_mul(zinv(Es.q[i], Es.p[i]), zpose(Es.q[j], Es.p[j]))
    # inverse of Qrel written out: [R^T, -R^T t]
    Rq = [[Qrel[a][b] for b in range(3)] for a in range(3)]
    tq = [Qrel[a][3] for a in range(3)]
    Rt = zT(Rq)
    ti = [-x for x in zmat_vec(Rt, tq)]
    Qi = [Rt[0] + [ti[0]], Rt[1] + [ti[1]], Rt[2] + [ti[2]], [0, 0, 0, 1]]
    return zmat_mul(Qi, Prel)


def zz(x):
    return x if z3.is_expr(x) else sc.q_of(Fraction(x))


def value_goal_from_E(rel, v, E):
    """value = f(E) with E a 4x4 of z3 terms (evo's own E entries)"""
    if v is sc.POISON:
        return z3.BoolVal(False)
    d = lambda a, b: (1 if a == b else 0)      # noqa: E731
    if rel == "translation_part":
        term = sum(zz(E[a][3]) * zz(E[a][3]) for a in range(3))
    elif rel == "rotation_part":
        term = sum((zz(E[a][b]) - d(a, b)) * (zz(E[a][b]) - d(a, b)) for a in range(3) for b in range(3))
    elif rel == "full_transformation":
        term = sum((zz(E[a][b]) - d(a, b)) * (zz(E[a][b]) - d(a, b)) for a in range(4) for b in range(4))
    else:
        tr = zz(E[0][0]) + zz(E[1][1]) + zz(E[2][2])
        ang = stubs.ACOS((tr - 1) / 2)
        if rel == "rotation_angle_deg":
            ang = ang * sc.q_of(Fraction(180) / stubs.PI)
        return toz(v) == ang
    rad = sc.radicand_of(v)
    if rad is not None:
        return rad == term
    return z3.And(toz(v) >= 0, toz(v) * toz(v) == term)


def concrete_rpe(rel, tr, te, i, j):
    Q = rnp.linalg.inv(tr.poses_se3[i]).dot(tr.poses_se3[j])
    P = rnp.linalg.inv(te.poses_se3[i]).dot(te.poses_se3[j])
    E = rnp.linalg.inv(Q).dot(P)
    if rel == "translation_part":
        return float(rnp.linalg.norm(E[:3, 3]))
    if rel == "rotation_part":
        return float(rnp.linalg.norm(E[:3, :3] - rnp.eye(3)))
    if rel == "full_transformation":
        return float(rnp.linalg.norm(E - rnp.eye(4)))
    if rel.startswith("rotation_angle"):
        a = math.acos(min(1.0, max(-1.0, (rnp.trace(E[:3, :3]) - 1) / 2)))
        return a if rel.endswith("rad") else math.degrees(a)
    dr = float(rnp.linalg.norm(tr.positions_xyz[j] - tr.positions_xyz[i]))
    de = float(rnp.linalg.norm(te.positions_xyz[j] - te.positions_xyz[i]))
    if rel == "point_distance":
        return abs(dr - de)
    return None if dr == 0 else abs(dr - de) / dr * 100


def oracle(rel, tr, te, pairs, m):
    bad = []
    exp_ids, exp_vals = [], []
    for (i, j) in pairs:
        v = concrete_rpe(rel, tr, te, i, j)
        if v is None:
            continue
        exp_ids.append(j)
        exp_vals.append(v)
    if list(m.delta_ids) != exp_ids:
        bad.append("delta_ids %r expected %r" % (list(m.delta_ids), exp_ids))
    if len(m.error) != len(exp_vals):
        bad.append("%d values for %d pairs" % (len(m.error), len(exp_vals)))
    else:
        for k, (a, b) in enumerate(zip(m.error, exp_vals)):
            tol = 2e-6 if "angle" in rel else 1e-7
            if abs(float(a) - b) > tol * max(1.0, abs(b)):
                bad.append("value[%d] = %r, definition gives %r" % (k, float(a), b))
    return bad


def sqnorm(p, i, j):
    return sum((p[j][c] - p[i][c]) * (p[j][c] - p[i][c]) for c in range(3))


def point_goals(rel, m, Rf, Es, pairs, ctx, col):
    """point_distance / ratio: values from straight-line distances; returns (goals, hyps)"""
    g, hyps = {}, []
    surv = []
    for (i, j) in pairs:
        if rel == "point_distance_error_ratio":
            dz = sqnorm(Rf.p, i, j)
            r0, _ = ctx.solve([dz == 0], kind="aux", full=True)
            r1, _ = ctx.solve([dz != 0], kind="aux", full=True)
            if r0 == "unsat":
                surv.append((i, j))
            elif r1 != "unsat":
                col.d["inconclusive"].append(dict(ob="ratio pair classification", why="path does not decide zero distance"))
                return None, None
        else:
            surv.append((i, j))
    g["delta_ids_are_the_pair_ends_of_the_values"] = z3.BoolVal(list(m.delta_ids) == [j for _, j in surv])
    g["one_value_per_surviving_pair"] = z3.BoolVal(len(m.error) == len(surv))
    if len(m.error) == len(surv):
        for k, (i, j) in enumerate(surv):
            dr, de = z3.Real("dref_%d" % k), z3.Real("dest_%d" % k)
            hyps += [dr >= 0, dr * dr == sqnorm(Rf.p, i, j), de >= 0, de * de == sqnorm(Es.p, i, j)]
            diff = z3.If(dr - de >= 0, dr - de, de - dr)
            if rel == "point_distance":
                g["value_%d_is_abs_difference_of_distances" % k] = toz(m.error[k]) == diff
            else:
                g["value_%d_is_percent_of_reference_distance" % k] = toz(m.error[k]) * dr == diff * 100
    return g, hyps


def run_def(case, col):
    rel, mode, n, delta, allp = case["rel"], case["mode"], case["n"], case["delta"], case["all_pairs"]
    Rf, Es = SymTraj("r", n, stamps=False), SymTraj("e", n, stamps=False)
    inputs = dict(Rf.inputs(), **Es.inputs())
    pairs = frame_pairs(n, delta, allp)

    def fn():
        m = M().RPE(M().PoseRelation[rel], delta, U().Unit.frames, all_pairs=allp)
        m.process_data((Rf.build(mode), Es.build(mode)))
        return m

    def replay(vals):
        Mr, Ur = common.R("evo.core.metrics"), common.R("evo.core.units")
        tr, te = Rf.concrete(vals, mode), Es.concrete(vals, mode)
        m = Mr.RPE(Mr.PoseRelation[rel], delta, Ur.Unit.frames, all_pairs=allp)
        try:
            m.process_data((tr, te))
        except Exception as e:      # noqa: BLE001
            return True, "process_data raised %s: %s" % (type(e).__name__, e)
        bad = oracle(rel, tr, te, pairs, m)
        return bool(bad), "; ".join(bad) or "ok"

    def on_ok(pr):
        m = pr.out
        descr = "RPE %s %s N=%d delta=%d all=%s" % (rel, mode, n, delta, allp)
        if rel in ("point_distance", "point_distance_error_ratio"):
            g, hyps = point_goals(rel, m, Rf, Es, pairs, pr.ctx, col)
            if g is not None:
                runner.check_obligations(col, pr.ctx, g, inputs, replay, descr=descr, timeout_ms=90000, hyps=hyps)
            return
        g = {"delta_ids_are_the_pair_ends": z3.BoolVal(list(m.delta_ids) == [j for _, j in pairs]),
             "one_value_per_pair": z3.BoolVal(len(m.error) == len(pairs) and len(m.E) == len(pairs))}
        if len(m.error) == len(pairs) and len(m.E) == len(pairs):
            for k, (i, j) in enumerate(pairs):
                Ez = zE(Rf, Es, i, j)
                Ek = m.E[k]
                g["E_%d_is_relative_error_pose_of_pair_%d_%d" % (k, i, j)] = z3.And(
                    [toz(Ek[a, b]) == zz(Ez[a][b]) for a in range(4) for b in range(4)])
                g["value_%d_is_reduction_of_E" % k] = value_goal_from_E(
                    rel, m.error[k], [[toz(Ek[a, b]) for b in range(4)] for a in range(4)])
        runner.check_obligations(col, pr.ctx, g, inputs, replay, descr=descr, timeout_ms=90000)

    def on_exc(pr):
        ok = pr.status == "exc:FilterException" and not pairs
        runner.check_obligations(col, pr.ctx, dict(exception_only_without_pairs=z3.BoolVal(ok)), inputs, replay)

    runner.explore_case(col, fn, Rf.assumptions() + Es.assumptions(), on_ok, on_exc, timeout_ms=90000,
                        pins=common.pins_for(Rf, Es))


def _vals_equal(m1, m2):
    if len(m1.error) != len(m2.error):
        return z3.BoolVal(False)
    return z3.And([sc.eq_goal(a, b) for a, b in zip(m1.error, m2.error)] + [z3.BoolVal(list(m1.delta_ids) == list(m2.delta_ids))])


def run_drift(case, col):
    """reference moved by T1, estimate by a different T2: values unchanged"""
    rel, n = case["rel"], case["n"]
    Rf, Es = SymTraj("r", n, stamps=False), SymTraj("e", n, stamps=False)
    T1, T2 = SymTraj("T", 1, stamps=False), SymTraj("S", 1, stamps=False)
    inputs = {}
    for t in (Rf, Es, T1, T2):
        inputs.update(t.inputs())
    Tt = common.S("evo.core.trajectory")

    def moved(traj, T):
        return Tt.PosePath3D(poses_se3=[symnp.dot(T, p) for p in traj.poses_se3])

    def fn():
        m1 = M().RPE(M().PoseRelation[rel], 1, U().Unit.frames)
        m1.process_data((Rf.build("se3"), Es.build("se3")))
        m2 = M().RPE(M().PoseRelation[rel], 1, U().Unit.frames)
        m2.process_data((moved(Rf.build("se3"), T1.poses()[0]), moved(Es.build("se3"), T2.poses()[0])))
        return m1, m2

    def replay(vals):
        Mr, Ur, Tr = common.R("evo.core.metrics"), common.R("evo.core.units"), common.R("evo.core.trajectory")
        a, b = Rf.concrete(vals, "se3"), Es.concrete(vals, "se3")
        A, B = T1.concrete(vals, "se3").poses_se3[0], T2.concrete(vals, "se3").poses_se3[0]
        m1 = Mr.RPE(Mr.PoseRelation[rel], 1, Ur.Unit.frames)
        m2 = Mr.RPE(Mr.PoseRelation[rel], 1, Ur.Unit.frames)
        try:
            m1.process_data((a, b))
            m2.process_data((Tr.PosePath3D(poses_se3=[A.dot(p) for p in a.poses_se3]),
                             Tr.PosePath3D(poses_se3=[B.dot(p) for p in b.poses_se3])))
        except Exception as e:      # noqa: BLE001
            return False, "replay raised %s" % e
        if len(m1.error) != len(m2.error):
            return True, "number of values changes"
        d = float(rnp.abs(rnp.asarray(m1.error) - rnp.asarray(m2.error)).max()) if len(m1.error) else 0.0
        s = max(1.0, float(rnp.abs(A).max()), float(rnp.abs(B).max()), float(rnp.abs(a.positions_xyz).max()), float(rnp.abs(b.positions_xyz).max()))
        return d > 1e-6 * s * s, "moving ref and est by different rigid motions changes the values by %r" % d

    def on_ok(pr):
        m1, m2 = pr.out
        hyps = None
        if len(m1.E) and len(m1.E) == len(m2.E) and not rel.startswith("point"):
            # chain: the relative error poses are unchanged entrywise; then the values (functions of E) are
            eqs = [toz(m1.E[k][a, b]) == toz(m2.E[k][a, b]) for k in range(len(m1.E)) for a in range(4) for b in range(4)]
            ok = runner.check_obligations(col, pr.ctx, {"relative_error_poses_unchanged_entrywise": z3.And(eqs)}, inputs, replay,
                                          descr="drift %s" % rel, timeout_ms=120000)
            hyps = eqs if ok else None
        runner.check_obligations(col, pr.ctx, {"unchanged_when_ref_and_est_are_moved_by_different_rigid_motions": _vals_equal(m1, m2)},
                                 inputs, replay, descr="drift %s" % rel, timeout_ms=120000, hyps=hyps)

    def on_exc(pr):
        # ratio relation with zero reference distance on every pair: numpy ValueError on an empty array (see C12 note)
        ok = rel == "point_distance_error_ratio" and pr.status == "exc:ValueError"
        runner.check_obligations(col, pr.ctx, dict(only_documented_exception=z3.BoolVal(ok)), inputs, replay)
    ass = []
    for t in (Rf, Es, T1, T2):
        ass += t.assumptions()
    runner.explore_case(col, fn, ass, on_ok, on_exc, timeout_ms=120000, pins=common.pins_for(Rf, Es, T1, T2))


def run_same(case, col):
    """estimate performs the same relative motions as the reference (est = T * ref): zero"""
    rel, n = case["rel"], case["n"]
    Rf, T1 = SymTraj("r", n, stamps=False), SymTraj("T", 1, stamps=False)
    inputs = dict(Rf.inputs(), **T1.inputs())
    Tt = common.S("evo.core.trajectory")

    def fn():
        ref = Rf.build("se3")
        est = Tt.PosePath3D(poses_se3=[symnp.dot(T1.poses()[0], p) for p in Rf.build("se3").poses_se3])
        m = M().RPE(M().PoseRelation[rel], 1, U().Unit.frames)
        m.process_data((ref, est))
        return m

    def replay(vals):
        Mr, Ur, Tr = common.R("evo.core.metrics"), common.R("evo.core.units"), common.R("evo.core.trajectory")
        a = Rf.concrete(vals, "se3")
        A = T1.concrete(vals, "se3").poses_se3[0]
        m = Mr.RPE(Mr.PoseRelation[rel], 1, Ur.Unit.frames)
        try:
            m.process_data((a, Tr.PosePath3D(poses_se3=[A.dot(p) for p in a.poses_se3])))
        except Exception as e:      # noqa: BLE001
            return False, "replay raised %s" % e
        d = float(rnp.abs(rnp.asarray(m.error)).max()) if len(m.error) else 0.0
        s = max(1.0, float(rnp.abs(A).max()), float(rnp.abs(a.positions_xyz).max()))
        return d > 2e-6 * s * s, "non-zero RPE %r for identical relative motions" % d

    def on_ok(pr):
        m = pr.out
        hyps = None
        if len(m.E) and not rel.startswith("point"):
            eqs = [toz(m.E[k][a, b]) == (1 if a == b else 0) for k in range(len(m.E)) for a in range(4) for b in range(4)]
            ok = runner.check_obligations(col, pr.ctx, {"relative_error_pose_is_identity": z3.And(eqs)}, inputs, replay,
                                          descr="same motion %s" % rel, timeout_ms=120000)
            hyps = eqs if ok else None
        g = {"zero_when_relative_motions_agree": z3.And([(sc.radicand_of(v) == 0) if sc.radicand_of(v) is not None else (toz(v) == 0)
                                                         for v in m.error]) if len(m.error) else z3.BoolVal(True)}
        runner.check_obligations(col, pr.ctx, g, inputs, replay, descr="same motion %s" % rel, timeout_ms=120000, hyps=hyps)

    def on_exc(pr):
        ok = rel == "point_distance_error_ratio" and pr.status == "exc:ValueError"
        runner.check_obligations(col, pr.ctx, dict(only_documented_exception=z3.BoolVal(ok)), inputs, replay)
    runner.explore_case(col, fn, Rf.assumptions() + T1.assumptions(), on_ok, on_exc, timeout_ms=120000, pins=common.pins_for(Rf, T1))


def run_unequal(case, col):
    a, b = case["a"], case["b"]
    Rf, Es = SymTraj("r", a, stamps=False), SymTraj("e", b, stamps=False)
    inputs = dict(Rf.inputs(), **Es.inputs())
    for rel in RELS:
        def fn(rel=rel):
            m = M().RPE(M().PoseRelation[rel], 1, U().Unit.frames)
            m.process_data((Rf.build("se3"), Es.build("se3")))
            return m

        def rp(vals, rel=rel):
            Mr, Ur = common.R("evo.core.metrics"), common.R("evo.core.units")
            m = Mr.RPE(Mr.PoseRelation[rel], 1, Ur.Unit.frames)
            try:
                m.process_data((Rf.concrete(vals, "se3"), Es.concrete(vals, "se3")))
            except Mr.MetricsException:
                return False, "refused"
            except Exception as e:     # noqa: BLE001
                return True, "wrong exception %s" % type(e).__name__
            return True, "sequences of %d and %d poses accepted" % (a, b)

        def on_ok(pr, rp=rp, rel=rel):
            runner.check_obligations(col, pr.ctx, {"unequal_lengths_refused_" + rel: z3.BoolVal(False)}, inputs, rp)

        def on_exc(pr, rp=rp, rel=rel):
            runner.check_obligations(col, pr.ctx, {"unequal_lengths_refused_" + rel: z3.BoolVal(pr.status == "exc:MetricsException")}, inputs, rp)
        runner.explore_case(col, fn, Rf.assumptions() + Es.assumptions(), on_ok, on_exc, pins=common.pins_for(Rf, Es))


def run_nopairs(case, col):
    Rf = SymTraj("r", 2, stamps=False)

    def fn():
        m = M().RPE(M().PoseRelation.translation_part, 5, U().Unit.frames)
        m.process_data((Rf.build("se3"), Rf.build("se3")))
        return m

    def on_ok(pr):
        runner.check_obligations(col, pr.ctx, dict(delta_without_pairs_is_filter_error=z3.BoolVal(False)), Rf.inputs(),
                                 lambda v: (True, "delta larger than the trajectory accepted"))

    def on_exc(pr):
        runner.check_obligations(col, pr.ctx, dict(delta_without_pairs_is_filter_error=z3.BoolVal(pr.status == "exc:FilterException")),
                                 Rf.inputs(), lambda v: (True, "wrong exception"))
    runner.explore_case(col, fn, Rf.assumptions(), on_ok, on_exc, pins=common.pins_for(Rf))


def run_baddelta(case, col):
    for delta, unit in ((-1, "frames"), (Fraction(3, 2), "frames")):
        def fn(delta=delta, unit=unit):
            return M().RPE(M().PoseRelation.translation_part, delta, U().Unit[unit])

        def on_ok(pr, delta=delta):
            runner.check_obligations(col, pr.ctx, {"bad_delta_%s_refused" % delta: z3.BoolVal(False)}, {}, lambda v: (True, "accepted"))

        def on_exc(pr, delta=delta):
            runner.check_obligations(col, pr.ctx, {"bad_delta_%s_refused" % delta: z3.BoolVal(pr.status == "exc:MetricsException")}, {},
                                     lambda v: (True, "wrong exception"))
        runner.explore_case(col, fn, [], on_ok, on_exc)


def run_metric(case, col):
    """delta in meters (symbolic): values belong to exactly the pairs id_pairs_from_delta selects on the
    trajectory named by pairs_from_reference (the selection itself is C10's)"""
    n, allp, fromref = case["n"], case["all_pairs"], case["from_ref"]
    Rf, Es = SymTraj("r", n, stamps=False), SymTraj("e", n, stamps=False)
    inputs = dict(Rf.inputs(), **Es.inputs())
    zd, zt = z3.Real("delta"), z3.Real("rel_tol")
    inputs.update(delta=zd, rel_tol=zt)
    rel = "translation_part"
    state = {}

    def fn():
        probe = (Rf if fromref else Es).build("se3")
        state["pairs"] = None
        state["pairs"] = [(int(i), int(j)) for i, j in M().id_pairs_from_delta(probe.poses_se3, SymReal(zd), U().Unit.meters,
                                                                               SymReal(zt), all_pairs=allp)]
        m = M().RPE(M().PoseRelation[rel], SymReal(zd), U().Unit.meters, SymReal(zt), allp, fromref)
        m.process_data((Rf.build("se3"), Es.build("se3")))
        return m

    def replay(vals):
        Mr, Ur = common.R("evo.core.metrics"), common.R("evo.core.units")
        tr, te = Rf.concrete(vals, "se3"), Es.concrete(vals, "se3")
        d, t = float(vals["delta"]), float(vals["rel_tol"])
        try:
            prs = Mr.id_pairs_from_delta((tr if fromref else te).poses_se3, d, Ur.Unit.meters, t, all_pairs=allp)
            m = Mr.RPE(Mr.PoseRelation[rel], d, Ur.Unit.meters, t, allp, fromref)
            m.process_data((tr, te))
        except Exception as e:      # noqa: BLE001
            return False, "replay raised %s" % e
        bad = oracle(rel, tr, te, [(int(i), int(j)) for i, j in prs], m)
        return bool(bad), "; ".join(bad) or "ok"

    def on_ok(pr):
        m, pairs = pr.out, state["pairs"]
        g = {"delta_ids_are_the_pair_ends_selected_on_the_%s" % ("reference" if fromref else "estimate"):
             z3.BoolVal(list(m.delta_ids) == [j for _, j in pairs]),
             "one_value_per_pair": z3.BoolVal(len(m.error) == len(pairs) and len(m.E) == len(pairs))}
        if len(m.error) == len(pairs) and len(m.E) == len(pairs):
            for k, (i, j) in enumerate(pairs):
                Ez = zE(Rf, Es, i, j)
                g["E_%d_is_relative_error_pose_of_pair_%d_%d" % (k, i, j)] = z3.And(
                    [toz(m.E[k][a, b]) == zz(Ez[a][b]) for a in range(4) for b in range(4)])
                g["value_%d_is_reduction_of_E" % k] = value_goal_from_E(rel, m.error[k], [[toz(m.E[k][a, b]) for b in range(4)] for a in range(4)])
        runner.check_obligations(col, pr.ctx, g, inputs, replay, descr="metric delta N=%d" % n, timeout_ms=90000)

    def on_exc(pr):
        ok = pr.status == "exc:FilterException" and state.get("pairs") is None
        runner.check_obligations(col, pr.ctx, dict(filter_error_only_when_selection_is_empty=z3.BoolVal(ok)), inputs, replay)

    runner.explore_case(col, fn, Rf.assumptions() + Es.assumptions() + [zd > 0, zt >= 0, zt <= 1], on_ok, on_exc,
                        timeout_ms=90000, pins=common.pins_for(Rf, Es))


def replay_file(rec):
    return False, "re-run ./check C02 (witness embedded in the record)"
