"""C08 -- trajectory operations have their documented effect and keep all views consistent.

One inductive step from an arbitrary valid state (DESIGN C08): the pre-state is a trajectory built from
positions+quaternions or from pose matrices, with any of the other views already materialised; one
operation with symbolic arguments; post: the consistency invariant on all views, the documented effect,
validity (evo's own check()).  The thorough tier adds depth-2 histories.
"""
from fractions import Fraction
import copy
import itertools

import numpy as rnp
import z3

from evoverif import runner, symcore as sc, symnp, symrot, stubs
from evoverif.symcore import SymReal, toz
from . import common
from .common import SymTraj, zR, zT, zmat_mul, zmat_vec
from .c01 import zpose, zinv

PROPERTY = "C08"
FUNCTIONS = ["PosePath3D.__init__", "positions_xyz / orientations_quat_wxyz / poses_se3 (lazy views)", "transform", "scale",
             "reduce_to_ids", "downsample", "align_origin", "project", "check", "path_length", "distances", "num_poses",
             "PoseTrajectory3D.reduce_to_ids", "speeds", "get_infos", "copy.deepcopy", "xyz_quat_wxyz_to_se3_poses",
             "se3_poses_to_xyz_quat_wxyz", "transformations.quaternion_matrix", "quaternion_from_matrix (eigh stub)"]
BOUNDS = {"quick": "N = 2 (3 for index operations) poses, 4 pre-states (storage mode x views materialised), 1 operation",
          "thorough": "additionally 9 pairs of operations in sequence with reads of every view in between (N = 2; 3 where an index operation takes part)"}
STUBS = ["eigh stub (unit quaternion of a rotation block, non-negative scalar part)", "sqrt stub", "atan2 angle objects (project)"]
ASSUMPTIONS = ["pre-state valid: unit quaternions, strictly increasing stamps"]
OUTSIDE = ["float drift over long histories", "check()'s tolerances beyond exact group elements", "N beyond the bound",
           "motion filtering / time cropping / alignment have their own properties (C11, C04)"]

PRE = ["quat", "quat+poses", "se3", "se3+views"]
OPS = ["transform_left", "transform_right", "transform_propagate", "transform_left_pure_translation", "scale",
       "reduce_to_ids", "downsample", "align_origin", "deepcopy", "project_xy", "noop_reads"]


def worker_init():
    common.ensure_loaded()


def cases(tier, seed):
    out = [dict(name="rotation_lemmas", kind="lemmas")]
    for pre in PRE:
        for op in OPS:
            n = 3 if op in ("reduce_to_ids", "downsample") else 2
            out.append(dict(name="%s__%s" % (pre, op), kind="step", pre=pre, ops=[op], n=n))
    if tier != "quick":
        pairs = [("transform_left", "scale"), ("scale", "transform_right"), ("reduce_to_ids", "transform_left"),
                 ("transform_left", "reduce_to_ids"), ("scale", "scale"),
                 ("align_origin", "scale"), ("downsample", "transform_right"),
                 ("deepcopy", "project_xy"), ("transform_left_pure_translation", "transform_left_pure_translation")]
        for pre in PRE:
            for a, b in pairs:
                n = 3 if ("reduce_to_ids" in (a, b) or "downsample" in (a, b)) else 2
                out.append(dict(name="%s__%s__%s" % (pre, a, b), kind="step", pre=pre, ops=[a, b], n=n))
    return out


def run_case(case, col):
    if case["kind"] == "lemmas":
        from evoverif import lemmas
        return lemmas.lemma_case(col)
    run_step(case, col)


def zz(x):
    return x if z3.is_expr(x) else sc.q_of(Fraction(x))


class Model:
    """specification state: list of (R as 3x3 z3 terms, p as 3 z3 terms), stamps"""

    def __init__(self, T):
        self.R = [zR(q) for q in T.q]
        self.p = [list(p) for p in T.p]
        self.t = list(T.t) if T.t is not None else None
        self.projected = False

    def pose(self, i):
        R, p = self.R[i], self.p[i]
        return [R[0] + [p[0]], R[1] + [p[1]], R[2] + [p[2]], [0, 0, 0, 1]]

    def set_pose(self, i, M):
        self.R[i] = [[M[a][b] for b in range(3)] for a in range(3)]
        self.p[i] = [M[a][3] for a in range(3)]


def inv4(M):
    R = [[M[a][b] for b in range(3)] for a in range(3)]
    t = [M[a][3] for a in range(3)]
    Rt = zT(R)
    ti = [-x for x in zmat_vec(Rt, t)]
    return [Rt[0] + [ti[0]], Rt[1] + [ti[1]], Rt[2] + [ti[2]], [0, 0, 0, 1]]


def run_step(case, col):
    pre, ops, n = case["pre"], case["ops"], case["n"]
    Tj = SymTraj("a", n)
    Rf = SymTraj("r", n)                   # reference for align_origin
    Tm = SymTraj("T", 1, stamps=False)     # transformation argument
    sv = z3.Real("scale")
    inputs = dict(Tj.inputs(), **Rf.inputs())
    inputs.update(Tm.inputs())
    inputs["scale"] = sv
    assume = Tj.assumptions() + Rf.assumptions() + Tm.assumptions() + [sv > 0]
    Tt = common.S("evo.core.trajectory")
    state = {}

    def materialise(t):
        if pre == "quat+poses":
            t.poses_se3
        elif pre == "se3+views":
            t.positions_xyz
            t.orientations_quat_wxyz

    def apply(t, op, real=False, vals=None):
        """applies op to facade (or real) trajectory; returns extra info"""
        if real:
            Tmat = Tm.concrete(vals, "se3").poses_se3[0]
            s = float(vals["scale"])
            ref = Rf.concrete(vals, "se3")
            PlaneT = common.R("evo.core.trajectory").Plane
        else:
            Tmat = Tm.poses()[0]
            s = SymReal(sv)
            ref = Rf.build("se3")
            PlaneT = Tt.Plane
        if op == "transform_left":
            t.transform(Tmat)
        elif op == "transform_right":
            t.transform(Tmat, right_mul=True)
        elif op == "transform_propagate":
            t.transform(Tmat, right_mul=True, propagate=True)
        elif op == "transform_left_pure_translation":
            Tp = rnp.asarray(Tmat).copy()
            Tp[:3, :3] = rnp.eye(3) if real else rnp.array([[1, 0, 0], [0, 1, 0], [0, 0, 1]], dtype=object)
            t.transform(Tp if real else Tp.view(symnp.SymArray))
        elif op == "scale":
            t.scale(s)
        elif op == "reduce_to_ids":
            t.reduce_to_ids([0, 2])
        elif op == "downsample":
            t.downsample(2)
        elif op == "align_origin":
            t.align_origin(ref)
        elif op == "deepcopy":
            return copy.deepcopy(t)
        elif op == "project_xy":
            t.project(PlaneT.XY)
        elif op == "noop_reads":
            t.positions_xyz
            t.orientations_quat_wxyz
            t.poses_se3
        return t

    def model_apply(m, op):
        T = zpose(Tm.q[0], Tm.p[0])
        if op == "transform_left":
            for i in range(len(m.R)):
                m.set_pose(i, zmat_mul(T, m.pose(i)))
        elif op == "transform_right":
            for i in range(len(m.R)):
                m.set_pose(i, zmat_mul(m.pose(i), T))
        elif op == "transform_propagate":
            old = [m.pose(i) for i in range(len(m.R))]
            new = [old[0]]
            for i in range(len(old) - 1):
                rel = zmat_mul(zmat_mul(inv4(old[i]), old[i + 1]), T)
                new.append(zmat_mul(new[i], rel))
            for i, M in enumerate(new):
                m.set_pose(i, M)
        elif op == "transform_left_pure_translation":
            for i in range(len(m.R)):
                m.p[i] = [m.p[i][a] + Tm.p[0][a] for a in range(3)]
        elif op == "scale":
            for i in range(len(m.R)):
                m.p[i] = [sv * x for x in m.p[i]]
        elif op in ("reduce_to_ids", "downsample"):
            ids = [0, 2]
            m.R = [m.R[i] for i in ids]
            m.p = [m.p[i] for i in ids]
            if m.t is not None:
                m.t = [m.t[i] for i in ids]
        elif op == "align_origin":
            Tz = zmat_mul(zpose(Rf.q[0], Rf.p[0]), inv4(m.pose(0)))
            for i in range(len(m.R)):
                m.set_pose(i, zmat_mul(Tz, m.pose(i)))
        elif op == "project_xy":
            m.projected = True       # effect owned by C14; here: consistency of views + z = 0 + xy kept
            for i in range(len(m.R)):
                m.p[i] = [m.p[i][0], m.p[i][1], z3.RealVal(0)]
                m.R[i] = None

    def fn():
        t = Tj.build("quat" if pre.startswith("quat") else "se3")
        materialise(t)
        snap_before = None
        for k, op in enumerate(ops):
            if k > 0:
                # reads of every representation between operations
                t.positions_xyz
                t.orientations_quat_wxyz
                t.poses_se3
            if op == "deepcopy":
                src = t
                snap_before = (rnp.asarray(src.positions_xyz).copy(), [rnp.asarray(p).copy() for p in src.poses_se3])
                t = apply(t, op)
                state["src"] = (src, snap_before)
            else:
                t = apply(t, op)
        valid, details = t.check()
        infos = t.get_infos()
        return t, valid, details, infos

    def replay(vals):
        return replay_step(vals, case, Tj, Rf, Tm, apply, materialise)

    def on_ok(pr):
        t, valid, details, infos = pr.out
        m = Model(Tj)
        for op in ops:
            model_apply(m, op)
        K = len(m.p)
        g = {}
        pos, quat, poses = t.positions_xyz, t.orientations_quat_wxyz, t.poses_se3
        g["all_views_have_the_same_count"] = z3.BoolVal(
            len(pos) == K and len(quat) == K and len(poses) == K and t.num_poses == K and len(t.timestamps) == K)
        if len(pos) == K and len(quat) == K and len(poses) == K and len(t.timestamps) == K:
            eff, cons, val = [], [], []
            for i in range(K):
                eff += [toz(poses[i][a, 3]) == zz(m.p[i][a]) for a in range(3)]
                if m.R[i] is not None:
                    eff += [toz(poses[i][a, b]) == zz(m.R[i][a][b]) for a in range(3) for b in range(3)]
                eff.append(toz(t.timestamps[i]) == m.t[i])
                cons += [toz(pos[i][a]) == toz(poses[i][a, 3]) for a in range(3)]
                Rq = zR([toz(quat[i][k]) for k in range(4)])
                cons += [Rq[a][b] == toz(poses[i][a, b]) for a in range(3) for b in range(3)]
                cons.append(sum(toz(quat[i][k]) * toz(quat[i][k]) for k in range(4)) == 1)
                Pz = [[toz(poses[i][a, b]) for b in range(3)] for a in range(3)]
                RtR = zmat_mul(zT(Pz), Pz)
                val += [RtR[a][b] == (1 if a == b else 0) for a in range(3) for b in range(3)]
                val += [toz(poses[i][3, b]) == (1 if b == 3 else 0) for b in range(4)]
                det = (Pz[0][0] * (Pz[1][1] * Pz[2][2] - Pz[1][2] * Pz[2][1]) - Pz[0][1] * (Pz[1][0] * Pz[2][2] - Pz[1][2] * Pz[2][0])
                       + Pz[0][2] * (Pz[1][0] * Pz[2][1] - Pz[1][1] * Pz[2][0]))
                val.append(det == 1)
            g["documented_effect_on_poses_and_stamps"] = z3.And(eff)
            g["positions_quaternions_matrices_describe_the_same_poses"] = z3.And(cons)
            g["every_pose_is_a_valid_rigid_body_pose"] = z3.And(val)
            g["evo_check_passes"] = valid.z if isinstance(valid, sc.SymBool) else z3.BoolVal(bool(valid))
            # derived quantities follow from the positions / stamps
            g["duration_and_infos"] = z3.And(toz(infos["duration (s)"]) == m.t[-1] - m.t[0], toz(infos["t_start (s)"]) == m.t[0],
                                             z3.BoolVal(infos["nr. of poses"] == K))
            pl = infos["path length (m)"]
            hyps = []
            tot = 0
            for i in range(K - 1):
                # the sqrt stub is a function of the *normal form* of its radicand: the specification's step
                # length |p_{i+1} - p_i| written from the model is the same atom iff the radicands agree
                rad = sum((zz(m.p[i + 1][a]) - zz(m.p[i][a])) * (zz(m.p[i + 1][a]) - zz(m.p[i][a])) for a in range(3))
                tot = tot + sc.sym_sqrt(sc.mk(rad) if not isinstance(rad, (int, Fraction)) else rad)
            g["path_length_is_sum_of_step_lengths"] = (toz(pl) == toz(tot)) if pl is not sc.POISON else z3.BoolVal(False)
        else:
            hyps = []
        if "deepcopy" in ops and "src" in state:
            src, (p0, P0) = state["src"]
            g["copy_source_unchanged_by_later_operations"] = z3.BoolVal(
                common.same_terms(src.positions_xyz, p0) and all(common.same_terms(a, b) for a, b in zip(src.poses_se3, P0)))
        runner.check_obligations(col, pr.ctx, g, inputs, replay, descr=case["name"], timeout_ms=120000, hyps=hyps)

    def on_exc(pr):
        col.d["harness_errors"].append(dict(ob="path", why="unexpected %s: %s" % (pr.status, pr.exc)))

    runner.explore_case(col, fn, assume, on_ok, on_exc, timeout_ms=120000, pins=common.pins_for(Tj, Rf, Tm), must_reach=("ok",))


def replay_step(vals, case, Tj, Rf, Tm, apply, materialise):
    pre, ops = case["pre"], case["ops"]
    tr = common.R("evo.core.transformations")
    t = Tj.concrete(vals, "quat" if pre.startswith("quat") else "se3")
    ref = Tj.concrete(vals, "se3")     # independent model: list of 4x4 + stamps
    P = [p.copy() for p in ref.poses_se3]
    ts = ref.timestamps.copy()
    materialise(t)
    Tmat = Tm.concrete(vals, "se3").poses_se3[0]
    s = float(vals["scale"])
    planar = False
    for k, op in enumerate(ops):
        if k > 0:
            t.positions_xyz, t.orientations_quat_wxyz, t.poses_se3
        t = apply(t, op, real=True, vals=vals)
        if op == "transform_left":
            P = [Tmat.dot(p) for p in P]
        elif op == "transform_right":
            P = [p.dot(Tmat) for p in P]
        elif op == "transform_propagate":
            new = [P[0]]
            for i in range(len(P) - 1):
                new.append(new[i].dot(rnp.linalg.inv(P[i]).dot(P[i + 1]).dot(Tmat)))
            P = new
        elif op == "transform_left_pure_translation":
            for p in P:
                p[:3, 3] += Tmat[:3, 3]
        elif op == "scale":
            for p in P:
                p[:3, 3] *= s
        elif op in ("reduce_to_ids", "downsample"):
            P, ts = [P[0], P[2]], ts[[0, 2]]
        elif op == "align_origin":
            T = Rf.concrete(vals, "se3").poses_se3[0].dot(rnp.linalg.inv(P[0]))
            P = [T.dot(p) for p in P]
        elif op == "project_xy":
            planar = True
            for p in P:
                p[2, 3] = 0.0
    bad = []
    K = len(P)
    if not (t.num_poses == K and len(t.positions_xyz) == K and len(t.orientations_quat_wxyz) == K and len(t.poses_se3) == K
            and len(t.timestamps) == K):
        return True, "views have different counts"
    m = max(1.0, max(float(rnp.abs(p).max()) for p in P))
    for i in range(K):
        if not rnp.allclose(t.poses_se3[i][:3, 3], P[i][:3, 3], atol=1e-8 * m * m):
            bad.append("pose %d position differs from the documented effect" % i)
        if not planar and not rnp.allclose(t.poses_se3[i][:3, :3], P[i][:3, :3], atol=1e-8):
            bad.append("pose %d rotation differs from the documented effect" % i)
        if not rnp.allclose(t.positions_xyz[i], t.poses_se3[i][:3, 3], atol=1e-8 * m * m):
            bad.append("positions view inconsistent with matrices at %d" % i)
        if not rnp.allclose(tr.quaternion_matrix(t.orientations_quat_wxyz[i])[:3, :3], t.poses_se3[i][:3, :3], atol=1e-7):
            bad.append("quaternion view inconsistent with matrices at %d" % i)
        if abs(ts[i] - t.timestamps[i]) > 0:
            bad.append("timestamp %d changed" % i)
    if not t.check()[0]:
        bad.append("check() fails: %r" % (t.check()[1],))
    return bool(bad), "; ".join(bad[:4]) or "ok"


def replay_file(rec):
    return False, "re-run ./check C08"
