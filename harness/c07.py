"""C07 -- readers/writers follow the published file conventions; malformed files are rejected.

The harness writes files *from the published conventions* with symbolic cells and runs evo's real
readers (csv_read_matrix, read_tum_trajectory_file, read_kitti_poses_file, read_euroc_csv_trajectory,
load_transform, load_transform_json); conversely evo's writers' output is parsed by a small independent
parser of the conventions.  Malformed files must end in FileInterfaceException on every path.
"""
import json
import os
import shutil
import tempfile
from fractions import Fraction

import numpy as rnp
import z3

from evoverif import runner, symcore as sc, symnp, symrot, textcells
from evoverif.symcore import SymReal, toz
from . import common
from .common import SymTraj, zR

PROPERTY = "C07"
FUNCTIONS = ["file_interface.csv_read_matrix", "has_utf8_bom", "read_tum_trajectory_file", "write_tum_trajectory_file",
             "read_kitti_poses_file", "write_kitti_poses_file", "read_euroc_csv_trajectory", "load_transform", "load_transform_json",
             "lie_algebra.is_sim3", "sim3", "transformations.quaternion_matrix", "trajectory.xyz_quat_wxyz_to_se3_poses"]
BOUNDS = {"quick": "<= 3 data rows, comment lines at every position, BOM / CRLF variants, defect position over every row/column in the bound",
          "thorough": "<= 4 data rows"}
STUBS = ["text cells for numbers (float() of a literal is C-level: any spelling python's float() accepts)", "numpy.load/loadtxt stubs"]
ASSUMPTIONS = ["unit quaternions in the files"]
OUTSIDE = ["float literal spellings (C-level float())", "files larger than the bound", "bag format", "BOM on an already opened handle"]
MODS = ("evo.tools.file_interface",)


def worker_init():
    common.ensure_loaded(MODS)


def cases(tier, seed):
    out = [dict(name="rotation_lemmas", kind="lemmas")]
    nmax = 3 if tier == "quick" else 4
    for n in range(1, nmax + 1):
        for fmt in ("tum", "kitti", "euroc"):
            for var in ("plain", "comments", "bom", "crlf", "handle"):
                if fmt == "euroc" and var == "handle":
                    continue
                out.append(dict(name="%s_N%d_%s" % (fmt, n, var), kind="read", fmt=fmt, n=n, var=var))
    for fmt in ("tum", "kitti", "euroc"):
        out.append(dict(name="%s_malformed" % fmt, kind="malformed", fmt=fmt, n=min(nmax, 3)))
    for fmt in ("tum", "kitti"):
        out.append(dict(name="%s_writer_parsed_independently" % fmt, kind="writer", fmt=fmt, n=2))
    for tf in ("txt", "npy", "json", "json_scale"):
        out.append(dict(name="transform_%s" % tf, kind="transform", tf=tf))
    out.append(dict(name="transform_invalid", kind="transform_invalid"))
    return out


def run_case(case, col):
    if case["kind"] == "lemmas":
        from evoverif import lemmas
        return lemmas.lemma_case(col)
    globals()["run_" + case["kind"]](case, col)


def FI():
    return common.S("evo.tools.file_interface")


def tmpdir():
    return tempfile.mkdtemp(prefix="evoverif_c07_", dir=os.environ.get("TMPDIR", "/tmp"))


NCOL = {"tum": 8, "kitti": 12, "euroc": 17}
DELIM = {"tum": " ", "kitti": " ", "euroc": ","}


def file_vars(fmt, n):
    return [[z3.Real("f_%d_%d" % (r, c)) for c in range(NCOL[fmt])] for r in range(n)]


def file_assumptions(fmt, V):
    a = []
    for r, row in enumerate(V):
        if fmt == "tum":
            a.append(sum(x * x for x in row[4:8]) == 1)
        elif fmt == "euroc":
            a.append(sum(x * x for x in row[4:8]) == 1)
        if fmt in ("tum", "euroc") and r > 0:
            a.append(V[r - 1][0] < row[0])
    return a


def write_file(path, fmt, V, var="plain", vals=None, defect=None):
    """writes a file following the published convention; vals=None -> symbolic cells, else floats (repr).
    defect: (kind, row, col) for malformed variants"""
    rows = []
    for r, row in enumerate(V):
        cells = []
        for c, v in enumerate(row):
            if vals is None:
                cells.append(SymReal(v))
            else:
                cells.append("raw:" + repr(float(vals[str(v)])))
        rows.append(cells)
    trailing = None
    if defect:
        kind, r, c = defect
        if kind == "too_few":
            rows[r] = rows[r][:-1]
        elif kind == "too_many":
            rows[r] = rows[r] + ["raw:1.0"]
        elif kind == "non_numeric":
            rows[r][c] = "raw:abc"
        elif kind == "trailing":
            trailing = {r}
        elif kind == "blank_row":
            rows.insert(r, ["raw:"])
        elif kind == "no_rows":
            rows = []
        elif kind == "break_late":
            # the line break between rows r and r+1 slipped by one token: k+1 / k-1 columns, rectangular in total
            rows[r], rows[r + 1] = rows[r] + rows[r + 1][:1], rows[r + 1][1:]
        elif kind == "break_early":
            rows[r], rows[r + 1] = rows[r][:-1], rows[r][-1:] + rows[r + 1]
    prefix = []
    if var == "comments":
        prefix = ["# a comment line", "# timestamp tx ty tz qx qy qz qw"]
    if fmt == "euroc" and var != "no_header":
        prefix = ["#timestamp [ns],p_x,p_y,p_z,q_w,q_x,q_y,q_z,v_x,v_y,v_z,b_w_x,b_w_y,b_w_z,b_a_x,b_a_y,b_a_z"] + prefix
    textcells.write_cells(path, rows, delimiter=DELIM[fmt], prefix_lines=prefix, newline="\r\n" if var == "crlf" else "\n",
                          bom=(var == "bom"), trailing=trailing)
    if var == "comments" and rows:
        # a comment between data rows as well
        with open(path, "rb") as f:
            lines = f.read().split(b"\n")
        lines.insert(len(prefix) + 1, b"# in between")
        with open(path, "wb") as f:
            f.write(b"\n".join(lines))


def reader(mod, fmt):
    return {"tum": mod.read_tum_trajectory_file, "kitti": mod.read_kitti_poses_file, "euroc": mod.read_euroc_csv_trajectory}[fmt]


def expected_goals(fmt, V, t):
    n = len(V)
    g = {"one_pose_per_data_row_in_order": z3.BoolVal(t.num_poses == n)}
    if t.num_poses != n:
        return g
    eqs, mats = [], []
    for i, row in enumerate(V):
        if fmt == "tum":
            ts, p, q = row[0], row[1:4], [row[7], row[4], row[5], row[6]]      # file has qx qy qz qw
        elif fmt == "euroc":
            ts, p, q = row[0] / sc.q_of(Fraction(10 ** 9)), row[1:4], row[4:8]                # file has qw qx qy qz
        if fmt in ("tum", "euroc"):
            eqs.append(toz(t.timestamps[i]) == ts)
            eqs += [toz(t.positions_xyz[i][k]) == p[k] for k in range(3)]
            eqs += [toz(t.orientations_quat_wxyz[i][k]) == q[k] for k in range(4)]
            Rz = zR(q)
            P = t.poses_se3[i]
            mats += [toz(P[a, b]) == Rz[a][b] for a in range(3) for b in range(3)]
            mats += [toz(P[a, 3]) == p[a] for a in range(3)] + [toz(P[3, b]) == (1 if b == 3 else 0) for b in range(4)]
        else:
            P = t.poses_se3[i]
            mats += [toz(P[a, b]) == row[4 * a + b] for a in range(3) for b in range(4)]
            mats += [toz(P[3, b]) == (1 if b == 3 else 0) for b in range(4)]
    if eqs:
        g["stamps_positions_quaternions_in_the_right_slots"] = z3.And(eqs)
    g["pose_matrices_follow_the_convention_hamilton_wxyz"] = z3.And(mats)
    return g


def conc_expected(fmt, rows):
    """independent concrete reading of the convention: list of (stamp, 4x4)"""
    out = []
    for r in rows:
        if fmt == "kitti":
            M = rnp.eye(4)
            M[:3, :] = rnp.array(r).reshape(3, 4)
            out.append((None, M))
            continue
        if fmt == "tum":
            ts, p, (x, y, z, w) = r[0], r[1:4], r[4:8]
        else:
            ts, p, (w, x, y, z) = r[0] / 1e9, r[1:4], r[4:8]
        nrm = (w * w + x * x + y * y + z * z) ** 0.5
        w, x, y, z = w / nrm, x / nrm, y / nrm, z / nrm
        M = rnp.eye(4)
        M[:3, :3] = [[1 - 2 * (y * y + z * z), 2 * (x * y - w * z), 2 * (x * z + w * y)],
                     [2 * (x * y + w * z), 1 - 2 * (x * x + z * z), 2 * (y * z - w * x)],
                     [2 * (x * z - w * y), 2 * (y * z + w * x), 1 - 2 * (x * x + y * y)]]
        M[:3, 3] = p
        out.append((ts, M))
    return out


def run_read(case, col):
    fmt, n, var = case["fmt"], case["n"], case["var"]
    V = file_vars(fmt, n)
    inputs = {str(v): v for row in V for v in row}

    def fn():
        textcells.reset()
        d = tmpdir()
        try:
            p = os.path.join(d, "f.txt")
            write_file(p, fmt, V, "plain" if var == "handle" else var)
            if var == "handle":
                with open(p) as f:
                    return reader(FI(), fmt)(f)
            return reader(FI(), fmt)(p)
        finally:
            shutil.rmtree(d, ignore_errors=True)

    def replay(vals):
        FIr = common.R("evo.tools.file_interface")
        d = tmpdir()
        try:
            p = os.path.join(d, "f.txt")
            write_file(p, fmt, V, "plain" if var == "handle" else var, vals=vals)
            try:
                if var == "handle":
                    with open(p) as f:
                        t = reader(FIr, fmt)(f)
                else:
                    t = reader(FIr, fmt)(p)
            except Exception as e:      # noqa: BLE001
                return True, "well-formed %s file (%s) rejected: %s" % (fmt, var, e)
            rows = [[float(vals[str(v)]) for v in row] for row in V]
            exp = conc_expected(fmt, rows)
            bad = []
            if t.num_poses != len(exp):
                bad.append("%d poses for %d rows" % (t.num_poses, len(exp)))
            else:
                for i, (ts, M) in enumerate(exp):
                    if ts is not None and abs(t.timestamps[i] - ts) > 1e-9 * max(1.0, abs(ts)):
                        bad.append("stamp %d" % i)
                    if not rnp.allclose(t.poses_se3[i], M, atol=1e-8 * max(1.0, float(rnp.abs(M).max()))):
                        bad.append("pose %d differs from the convention" % i)
            return bool(bad), "; ".join(bad) or "ok"
        finally:
            shutil.rmtree(d, ignore_errors=True)

    def on_ok(pr):
        runner.check_obligations(col, pr.ctx, expected_goals(fmt, V, pr.out), inputs, replay, descr=case["name"], timeout_ms=60000)

    def on_exc(pr):
        runner.check_obligations(col, pr.ctx, {"well_formed_file_is_loaded": z3.BoolVal(False)}, inputs, replay,
                                 descr=case["name"] + " raised " + pr.status)
    runner.explore_case(col, fn, file_assumptions(fmt, V), on_ok, on_exc, timeout_ms=60000,
                        pins=common.pin_quats([row[4:8] for row in V]) if fmt != "kitti" else None)


def run_malformed(case, col):
    fmt, n = case["fmt"], case["n"]
    V = file_vars(fmt, n)
    inputs = {str(v): v for row in V for v in row}
    defects = [("no_rows", 0, 0)]
    for r in range(n):
        defects += [("too_few", r, 0), ("too_many", r, 0), ("trailing", r, 0), ("blank_row", r, 0)]
        for c in (0, 3, NCOL[fmt] - 1 if fmt != "euroc" else 7):
            defects.append(("non_numeric", r, c))
    for r in range(n - 1):
        # compensating defects in two rows (added after seed C07c): the total number of fields is that of a well-formed file
        defects += [("break_late", r, 0), ("break_early", r, 0)]
    if fmt == "euroc":
        # EuRoC rows may have more than 8 columns by convention: 'too_many' on row 0 widens every row's minimum only there
        defects = [d for d in defects if not (d[0] == "too_many" and d[1] == 0)]

    for defect in defects:
        def fn(defect=defect):
            textcells.reset()
            d = tmpdir()
            try:
                p = os.path.join(d, "f.txt")
                write_file(p, fmt, V, "plain", defect=defect)
                return reader(FI(), fmt)(p)
            finally:
                shutil.rmtree(d, ignore_errors=True)

        def replay(vals, defect=defect):
            FIr = common.R("evo.tools.file_interface")
            d = tmpdir()
            try:
                p = os.path.join(d, "f.txt")
                write_file(p, fmt, V, "plain", vals=vals, defect=defect)
                try:
                    t = reader(FIr, fmt)(p)
                except FIr.FileInterfaceException:
                    return False, "rejected"
                except Exception as e:      # noqa: BLE001
                    return True, "malformed file (%s at row %d) ends in %s instead of evo's file-format error" % (defect[0], defect[1], type(e).__name__)
                return True, "malformed file (%s at row %d, col %d) was loaded (%d poses)" % (defect[0], defect[1], defect[2], t.num_poses)
            finally:
                shutil.rmtree(d, ignore_errors=True)

        name = "%s_row%d_col%d_rejected" % defect

        def on_ok(pr, replay=replay, name=name):
            runner.check_obligations(col, pr.ctx, {name: z3.BoolVal(False)}, inputs, replay, descr="%s %s" % (fmt, name))

        def on_exc(pr, replay=replay, name=name):
            runner.check_obligations(col, pr.ctx, {name: z3.BoolVal(pr.status == "exc:FileInterfaceException")}, inputs, replay,
                                     descr="%s %s (%s)" % (fmt, name, pr.status))
        runner.explore_case(col, fn, file_assumptions(fmt, V), on_ok, on_exc,
                            pins=common.pin_quats([row[4:8] for row in V]) if fmt != "kitti" else None)


def run_writer(case, col):
    """files evo writes are read by an independent parser of the conventions to the same poses"""
    fmt, n = case["fmt"], case["n"]
    Tj = SymTraj("a", n, stamps=(fmt == "tum"))

    def parse(path):
        rows = []
        with open(path) as f:
            for line in f.read().splitlines():
                if not line or line.startswith("#"):
                    continue
                rows.append([textcells.parse(t) for t in line.split(" ")])
        return rows

    def fn():
        textcells.reset()
        d = tmpdir()
        try:
            p = os.path.join(d, "w.txt")
            if fmt == "tum":
                t = Tj.build("quat")
                FI().write_tum_trajectory_file(p, t)
            else:
                t = Tj.build("se3")
                FI().write_kitti_poses_file(p, t)
            return parse(p), t
        finally:
            shutil.rmtree(d, ignore_errors=True)

    def replay(vals):
        FIr = common.R("evo.tools.file_interface")
        d = tmpdir()
        try:
            p = os.path.join(d, "w.txt")
            t = Tj.concrete(vals, "quat" if fmt == "tum" else "se3")
            (FIr.write_tum_trajectory_file if fmt == "tum" else FIr.write_kitti_poses_file)(p, t)
            rows = [[float(x) for x in line.split(" ")] for line in open(p).read().splitlines() if line and not line.startswith("#")]
            exp = conc_expected(fmt, rows)
            bad = []
            if len(exp) != t.num_poses:
                bad.append("row count")
            else:
                for i, (ts, M) in enumerate(exp):
                    if not rnp.allclose(M, t.poses_se3[i], atol=1e-9 * max(1.0, float(rnp.abs(M).max()))):
                        bad.append("row %d of the written file does not describe pose %d under the convention" % (i, i))
                    if ts is not None and ts != t.timestamps[i]:
                        bad.append("stamp %d" % i)
            return bool(bad), "; ".join(bad) or "ok"
        finally:
            shutil.rmtree(d, ignore_errors=True)

    def on_ok(pr):
        rows, t = pr.out
        g = {"one_row_per_pose_with_the_right_column_count": z3.BoolVal(len(rows) == n and all(len(r) == NCOL[fmt] and None not in r for r in rows))}
        if len(rows) == n and all(len(r) == NCOL[fmt] and None not in r for r in rows):
            eqs = []
            for i, r in enumerate(rows):
                if fmt == "tum":
                    exp = [Tj.t[i]] + Tj.p[i] + [Tj.q[i][1], Tj.q[i][2], Tj.q[i][3], Tj.q[i][0]]
                    eqs += [toz(r[c]) == exp[c] for c in range(8)]
                else:
                    Rz = zR(Tj.q[i])
                    exp = [Rz[a][b] if b < 3 else Tj.p[i][a] for a in range(3) for b in range(4)]
                    eqs += [toz(r[c]) == exp[c] for c in range(12)]
            g["written_cells_follow_the_convention"] = z3.And(eqs)
        runner.check_obligations(col, pr.ctx, g, Tj.inputs(), replay, descr=case["name"])
    runner.explore_case(col, fn, Tj.assumptions(), on_ok, None, pins=common.pins_for(Tj, n=1), must_reach=("ok",))


# --------------------------------------------------------------------------
def run_transform(case, col):
    tf = case["tf"]
    q = [z3.Real("t_q%s" % c) for c in "wxyz"]
    p = [z3.Real("t_%s" % c) for c in "xyz"]
    s = z3.Real("t_scale")
    inputs = {str(v): v for v in q + p + [s]}
    assume = [symrot.norm2(q) == 1, s > 0]
    Rz = zR(q)
    scale = s if tf in ("json_scale", "txt", "npy") else z3.RealVal(1)
    M = [[scale * Rz[a][b] for b in range(3)] + [p[a]] for a in range(3)] + [[0, 0, 0, 1]]

    def write(path, vals=None):
        if vals is None:
            ev = lambda t: (sc.mk(z3.simplify(t)) if z3.is_expr(t) else t)      # noqa: E731
        else:
            sub = [(v, sc.q_of(Fraction(float(vals[str(v)])))) for v in q + p + [s]]
            nrm = sum(float(vals[str(v)]) ** 2 for v in q) ** 0.5
            ev = None
        if tf in ("txt", "npy"):
            if vals is None:
                rows = [[ev(M[a][b]) for b in range(4)] for a in range(4)]
                if tf == "txt":
                    textcells.write_cells(path, rows)
                else:
                    textcells.save(path, symnp.array(rows))
            else:
                qq = rnp.array([float(vals[str(v)]) for v in q]) / nrm
                w, x, y, z = qq
                R = rnp.array([[1 - 2 * (y * y + z * z), 2 * (x * y - w * z), 2 * (x * z + w * y)],
                               [2 * (x * y + w * z), 1 - 2 * (x * x + z * z), 2 * (y * z - w * x)],
                               [2 * (x * z - w * y), 2 * (y * z + w * x), 1 - 2 * (x * x + y * y)]])
                A = rnp.eye(4)
                A[:3, :3] = float(vals[str(s)]) * R
                A[:3, 3] = [float(vals[str(v)]) for v in p]
                (rnp.savetxt if tf == "txt" else rnp.save)(path if tf == "txt" else open(path, "wb"), A)
                return A
        else:
            if vals is None:
                d = {"x": SymReal(p[0]), "y": SymReal(p[1]), "z": SymReal(p[2]), "qx": SymReal(q[1]), "qy": SymReal(q[2]),
                     "qz": SymReal(q[3]), "qw": SymReal(q[0])}
                if tf == "json_scale":
                    d["scale"] = SymReal(s)
                with open(path, "w") as f:
                    f.write(textcells.JsonFacade.dumps(d))
            else:
                qq = rnp.array([float(vals[str(v)]) for v in q]) / nrm
                d = {"x": float(vals[str(p[0])]), "y": float(vals[str(p[1])]), "z": float(vals[str(p[2])]),
                     "qw": qq[0], "qx": qq[1], "qy": qq[2], "qz": qq[3]}
                if tf == "json_scale":
                    d["scale"] = float(vals[str(s)])
                with open(path, "w") as f:
                    json.dump(d, f)
                w, x, y, z = qq
                R = rnp.array([[1 - 2 * (y * y + z * z), 2 * (x * y - w * z), 2 * (x * z + w * y)],
                               [2 * (x * y + w * z), 1 - 2 * (x * x + z * z), 2 * (y * z - w * x)],
                               [2 * (x * z - w * y), 2 * (y * z + w * x), 1 - 2 * (x * x + y * y)]])
                A = rnp.eye(4)
                A[:3, :3] = d.get("scale", 1.0) * R
                A[:3, 3] = [d["x"], d["y"], d["z"]]
                return A

    def fn():
        textcells.reset()
        d = tmpdir()
        try:
            path = os.path.join(d, "tf." + ("json" if tf.startswith("json") else tf))
            write(path)
            return FI().load_transform(path)
        finally:
            shutil.rmtree(d, ignore_errors=True)

    def replay(vals):
        FIr = common.R("evo.tools.file_interface")
        d = tmpdir()
        try:
            path = os.path.join(d, "tf." + ("json" if tf.startswith("json") else tf))
            A = write(path, vals)
            try:
                got = FIr.load_transform(path)
            except Exception as e:      # noqa: BLE001
                return True, "valid transform file rejected: %s" % e
            ok = rnp.allclose(got, A, atol=1e-9 * max(1.0, float(rnp.abs(A).max())))
            return (not ok), "loaded matrix differs from the file's transformation"
        finally:
            shutil.rmtree(d, ignore_errors=True)

    def on_ok(pr):
        T = pr.out
        g = {"shape_4x4": z3.BoolVal(T.shape == (4, 4))}
        if T.shape == (4, 4):
            g["matrix_is_the_transformation_in_the_file"] = z3.And(
                [toz(T[a, b]) == (M[a][b] if z3.is_expr(M[a][b]) else sc.q_of(Fraction(M[a][b]))) for a in range(4) for b in range(4)])
        runner.check_obligations(col, pr.ctx, g, inputs, replay, descr=case["name"], timeout_ms=60000)

    def on_exc(pr):
        runner.check_obligations(col, pr.ctx, {"valid_transform_is_loaded": z3.BoolVal(False)}, inputs, replay, descr=case["name"] + " " + pr.status)
    runner.explore_case(col, fn, assume, on_ok, on_exc, timeout_ms=60000, pins=common.pin_quats([q]))


def run_transform_invalid(case, col):
    """4x4 files that are not SE(3)/Sim(3): reflection, sheared block, wrong bottom row, wrong shape"""
    q = [z3.Real("t_q%s" % c) for c in "wxyz"]
    e = z3.Real("eps")
    inputs = {str(v): v for v in q + [e]}
    Rz = zR(q)
    variants = {
        "reflection": ([[-Rz[a][b] for b in range(3)] + [0] for a in range(3)] + [[0, 0, 0, 1]], []),
        "sheared": ([[Rz[a][b] + (e * Rz[a][0] if b == 1 else 0) for b in range(3)] + [0] for a in range(3)] + [[0, 0, 0, 1]],
                    [z3.Or(e >= sc.q_of(Fraction(1, 1000)), e <= -sc.q_of(Fraction(1, 1000)))]),
        "bottom_row": ([[Rz[a][b] for b in range(3)] + [0] for a in range(3)] + [[0, 0, e, 1]], [e != 0]),
        "shape_3x4": ([[Rz[a][b] for b in range(3)] + [0] for a in range(3)], []),
    }
    for name, (M, extra) in variants.items():
        for tf in ("txt", "npy"):
            def fn(M=M, tf=tf):
                textcells.reset()
                d = tmpdir()
                try:
                    path = os.path.join(d, "tf." + tf)
                    rows = [[(sc.mk(z3.simplify(x)) if z3.is_expr(x) else x) for x in row] for row in M]
                    if tf == "txt":
                        textcells.write_cells(path, rows)
                    else:
                        textcells.save(path, symnp.array(rows))
                    return FI().load_transform(path)
                finally:
                    shutil.rmtree(d, ignore_errors=True)

            def replay(vals, M=M, tf=tf, name=name):
                FIr = common.R("evo.tools.file_interface")
                d = tmpdir()
                try:
                    sub = [(v, sc.q_of(Fraction(float(vals[str(v)])))) for v in q + [e]]
                    nrm = sum(float(vals[str(v)]) ** 2 for v in q) ** 0.5 or 1.0
                    sub = [(v, sc.q_of(Fraction(float(vals[str(v)]) / nrm))) for v in q] + [(e, sc.q_of(Fraction(float(vals[str(e)]))))]
                    A = rnp.array([[float(sc.zval_to_fraction(z3.simplify(z3.substitute(x, *sub)))) if z3.is_expr(x) else float(x) for x in row]
                                   for row in M])
                    path = os.path.join(d, "tf." + tf)
                    if tf == "txt":
                        rnp.savetxt(path, A)
                    else:
                        with open(path, "wb") as f:
                            rnp.save(f, A)
                    try:
                        FIr.load_transform(path)
                    except FIr.FileInterfaceException:
                        return False, "rejected"
                    except Exception as ex:      # noqa: BLE001
                        return True, "%s matrix ends in %s instead of evo's file-format error" % (name, type(ex).__name__)
                    return True, "invalid transform (%s) was loaded" % name
                finally:
                    shutil.rmtree(d, ignore_errors=True)

            def on_ok(pr, name=name, tf=tf, replay=replay):
                runner.check_obligations(col, pr.ctx, {"invalid_%s_%s_rejected" % (name, tf): z3.BoolVal(False)}, inputs, replay)

            def on_exc(pr, name=name, tf=tf, replay=replay):
                runner.check_obligations(col, pr.ctx, {"invalid_%s_%s_rejected" % (name, tf): z3.BoolVal(pr.status == "exc:FileInterfaceException")},
                                         inputs, replay, descr=pr.status)
            runner.explore_case(col, fn, [symrot.norm2(q) == 1] + extra, on_ok, on_exc, timeout_ms=60000, pins=common.pin_quats([q]))


def replay_file(rec):
    return False, "re-run ./check C07"
