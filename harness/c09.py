"""C09 -- Lie-group helpers (evo.core.lie_algebra) on all of SO(3), SE(3), Sim(3).

Rotations are R(q), q.q = 1 (surjective onto SO(3)).  The angle is known through
the uninterpreted acos* with instantiated monotonicity (see stubs.py); exp o log
and the triangle inequality are outside the claim (DESIGN.md C09).
"""
from fractions import Fraction
import math

import numpy as rnp
import z3

from evoverif import runner, symcore as sc, symnp, symrot, stubs
from evoverif.symcore import SymReal, toz
from . import common
from .common import zR, zT, zmat_mul, zmat_vec, zabs

PROPERTY = "C09"
FUNCTIONS = ["lie_algebra.hat", "vee", "se3", "sim3", "so3_from_se3", "se3_inverse", "sim3_scale", "sim3_inverse",
             "is_so3", "is_se3", "is_sim3", "relative_so3", "relative_se3", "so3_log (both return forms)", "so3_log_angle"]
BOUNDS = {"quick": "single matrices / pairs / triples of symbolic group elements (no length bound involved)",
          "thorough": "same obligations, longer solver time-outs, near-miss families with symbolic distance"}
STUBS = ["scipy Rotation.from_matrix(M).as_rotvec(): |v| = acos*((tr M - 1)/2), acos* uninterpreted + instantiated contract",
         "np.power(x, 1/3): r >= 0, r^3 = x (NaN/poison for x < 0)", "linalg.norm: r >= 0, r^2 = sum of squares"]
ASSUMPTIONS = ["rotations are R(q) with q.q = 1", "scale s > 0"]
OUTSIDE = ["so3_exp(so3_log(R)) = R (both directions are scipy C code; a contract stub would assume the claim)",
           "triangle inequality of the rotation angle (needs more than monotonicity of acos)",
           "rounding at magnitudes 1e9 / 1e-4 (real mode)"]


def worker_init():
    common.ensure_loaded()


CASES = ["hat_vee", "se3_build", "se3_inverse", "relative_se3", "sim3", "sim3_inverse", "angle_range_symmetry",
         "angle_zero_iff_equal", "angle_biinvariant_left", "angle_biinvariant_right", "angle_degrees",
         "member_accept", "member_reject_reflection", "member_reject_scaled", "member_reject_sheared",
         "member_reject_bottom_row", "is_sim3_scaled_margin", "so3_log_refuses_non_rotation", "relative_so3",
         "log_skew_consistent"]


def cases(tier, seed):
    return [dict(name=c, kind=c, tier=tier) for c in CASES] + [dict(name="rotation_lemmas", kind="lemmas")]


def case_lemmas(case, col):
    from evoverif import lemmas
    lemmas.lemma_case(col)


def qvars(p):
    return [z3.Real("%s_%s" % (p, c)) for c in "wxyz"]


def tvars(p):
    return [z3.Real("%s_t%s" % (p, c)) for c in "xyz"]


def unit(q):
    return symrot.norm2(q) == 1


def arr3(zrows):
    return symnp.array([[sc.mk(z3.simplify(v)) if z3.is_expr(v) else v for v in row] for row in zrows])


def pose(q, t, registered=False):
    M = rnp.empty((4, 4), dtype=object)
    if registered:
        M[:3, :3] = symrot.new_rotation(q)
    else:
        M[:3, :3] = rnp.asarray(arr3(zR(q)))
    M[:3, 3] = [SymReal(v) for v in t]
    M[3, :] = [0, 0, 0, 1]
    return M.view(symnp.SymArray)


def real_R(vals, q):
    v = rnp.array([float(vals[str(x)]) for x in q])
    v = v / rnp.linalg.norm(v)
    w, x, y, z = v
    return rnp.array([[1 - 2 * (y * y + z * z), 2 * (x * y - w * z), 2 * (x * z + w * y)],
                      [2 * (x * y + w * z), 1 - 2 * (x * x + z * z), 2 * (y * z - w * x)],
                      [2 * (x * z - w * y), 2 * (y * z + w * x), 1 - 2 * (x * x + y * y)]])


def real_pose(vals, q, t):
    P = rnp.eye(4)
    P[:3, :3] = real_R(vals, q)
    P[:3, 3] = [float(vals[str(x)]) for x in t]
    return P


def mat_eq(M, Z):
    """facade matrix == list-of-lists of z3 terms / numbers, entrywise"""
    A = rnp.asarray(M, dtype=object)
    cons = []
    for i in range(A.shape[0]):
        for j in range(A.shape[1]):
            zz = Z[i][j]
            cons.append(toz(A[i, j]) == (zz if z3.is_expr(zz) else sc.q_of(Fraction(zz))))
    return z3.And(cons)


def eye_z(n):
    return [[1 if i == j else 0 for j in range(n)] for i in range(n)]


def zpose(q, t):
    R = zR(q)
    return [R[0] + [t[0]], R[1] + [t[1]], R[2] + [t[2]], [z3.RealVal(0), z3.RealVal(0), z3.RealVal(0), z3.RealVal(1)]]


def zpose_inv(q, t):
    Rt = zT(zR(q))
    ti = [-x for x in zmat_vec(Rt, t)]
    return [Rt[0] + [ti[0]], Rt[1] + [ti[1]], Rt[2] + [ti[2]], [z3.RealVal(0), z3.RealVal(0), z3.RealVal(0), z3.RealVal(1)]]


def run_case(case, col):
    globals()["case_" + case["kind"]](case, col)


def _auto_pins(inputs):
    qs = {}
    for n, v in inputs.items():
        if n[-2:] in ("_w", "_x", "_y", "_z") and len(n) == 3:
            qs.setdefault(n[0], {})[n[-1]] = v
    quats = [[d[c] for c in "wxyz"] for d in qs.values() if len(d) == 4]
    return common.pin_quats(quats) if quats else None


def _simple(col, fn, assume, inputs, goals_fn, replay, descr, timeout_ms=60000, on_exc=None, pins=None):
    pins = pins or _auto_pins(inputs)

    def on_ok(pr):
        runner.check_obligations(col, pr.ctx, lambda: goals_fn(pr.out), inputs, replay, descr=descr, timeout_ms=timeout_ms)
    runner.explore_case(col, fn, assume, on_ok, on_exc, timeout_ms=timeout_ms, pins=pins)


def L():
    return common.S("evo.core.lie_algebra")


def Lr():
    return common.R("evo.core.lie_algebra")


def close(a, b, tol=1e-9):
    return rnp.allclose(a, b, rtol=tol, atol=tol)


# --------------------------------------------------------------------------
def case_hat_vee(case, col):
    v = [z3.Real("v%d" % i) for i in range(3)]
    inputs = {str(x): x for x in v}

    def fn():
        vv = symnp.array([SymReal(x) for x in v])
        H = L().hat(vv)
        return H, L().vee(H), L().hat(L().vee(H))

    def goals(out):
        H, vb, H2 = out
        return dict(vee_of_hat_is_identity=z3.And([toz(vb[i]) == v[i] for i in range(3)]),
                    hat_is_skew=z3.And([toz(H[i, j]) == -toz(H[j, i]) for i in range(3) for j in range(3)]),
                    hat_of_vee_is_identity_on_skew=mat_eq(H2, [[toz(H[i, j]) for j in range(3)] for i in range(3)]),
                    hat_is_cross_product_matrix=mat_eq(H, [[0, -v[2], v[1]], [v[2], 0, -v[0]], [-v[1], v[0], 0]]),
                    shapes=z3.BoolVal(H.shape == (3, 3) and vb.shape == (3,)))

    def replay(vals):
        x = rnp.array([float(vals[str(a)]) for a in v])
        H = Lr().hat(x)
        bad = []
        if not close(Lr().vee(H), x):
            bad.append("vee(hat(v)) != v")
        if not close(H, -H.T) or not close(Lr().hat(Lr().vee(H)), H):
            bad.append("hat not skew / hat(vee(m)) != m")
        w = rnp.array([0.3, -1.2, 2.0])
        if not close(H.dot(w), rnp.cross(x, w)):
            bad.append("hat(v) w != v x w")
        return bool(bad), "; ".join(bad) or "ok"
    _simple(col, fn, [], inputs, goals, replay, "hat/vee")


def case_se3_build(case, col):
    q, t = qvars("a"), tvars("a")
    inputs = {str(x): x for x in q + t}

    def fn():
        r = arr3(zR(q))
        tt = symnp.array([SymReal(x) for x in t])
        P = L().se3(r, tt)
        return P, L().so3_from_se3(P), L().se3()

    def goals(out):
        P, r, P0 = out
        return dict(se3_places_blocks=mat_eq(P, zpose(q, t)), so3_from_se3_is_rotation_block=mat_eq(r, zR(q)),
                    default_is_identity=mat_eq(P0, eye_z(4)))

    def replay(vals):
        P = real_pose(vals, q, t)
        Pe = Lr().se3(P[:3, :3], P[:3, 3])
        bad = [] if close(Pe, P) and close(Lr().so3_from_se3(Pe), P[:3, :3]) and close(Lr().se3(), rnp.eye(4)) else ["se3/so3_from_se3 wrong"]
        return bool(bad), "; ".join(bad) or "ok"
    _simple(col, fn, [unit(q)], inputs, goals, replay, "se3()")


def case_se3_inverse(case, col):
    q, t = qvars("a"), tvars("a")
    inputs = {str(x): x for x in q + t}

    def fn():
        P = pose(q, t)
        Pi = L().se3_inverse(P)
        return P, Pi, symnp.dot(P, Pi), symnp.dot(Pi, P)

    def goals(out):
        P, Pi, A, B = out
        return dict(P_times_inverse_is_identity=mat_eq(A, eye_z(4)), inverse_times_P_is_identity=mat_eq(B, eye_z(4)),
                    inverse_is_Rt_minus_Rt_t=mat_eq(Pi, zpose_inv(q, t)))

    def replay(vals):
        P = real_pose(vals, q, t)
        Pi = Lr().se3_inverse(P)
        sc_ = max(1.0, float(rnp.abs(P).max()))
        bad = [] if rnp.allclose(P.dot(Pi), rnp.eye(4), atol=1e-9 * sc_ * sc_) and rnp.allclose(Pi.dot(P), rnp.eye(4), atol=1e-9 * sc_ * sc_) else ["P * se3_inverse(P) != I"]
        return bool(bad), "; ".join(bad) or "ok"
    _simple(col, fn, [unit(q)], inputs, goals, replay, "se3_inverse")


def case_relative_se3(case, col):
    qa, ta, qb, tb = qvars("a"), tvars("a"), qvars("b"), tvars("b")
    inputs = {str(x): x for x in qa + ta + qb + tb}

    def fn():
        A, B = pose(qa, ta), pose(qb, tb)
        return L().relative_se3(A, B), L().relative_se3(A, A)

    def goals(out):
        Rl, Raa = out
        return dict(rel_is_Ainv_B=mat_eq(Rl, zmat_mul(zpose_inv(qa, ta), zpose(qb, tb))), rel_A_A_is_identity=mat_eq(Raa, eye_z(4)))

    def replay(vals):
        A, B = real_pose(vals, qa, ta), real_pose(vals, qb, tb)
        s = max(1.0, float(rnp.abs(A).max()), float(rnp.abs(B).max()))
        ok = rnp.allclose(Lr().relative_se3(A, B), rnp.linalg.inv(A).dot(B), atol=1e-9 * s * s) and \
            rnp.allclose(Lr().relative_se3(A, A), rnp.eye(4), atol=1e-9 * s * s)
        return (not ok), "rel(A,B) != A^-1 B" if not ok else "ok"
    _simple(col, fn, [unit(qa), unit(qb)], inputs, goals, replay, "relative_se3")


def case_relative_so3(case, col):
    qa, qb = qvars("a"), qvars("b")
    inputs = {str(x): x for x in qa + qb}

    def fn():
        return L().relative_so3(arr3(zR(qa)), arr3(zR(qb)))

    def goals(out):
        return dict(rel_so3_is_At_B=mat_eq(out, zmat_mul(zT(zR(qa)), zR(qb))))

    def replay(vals):
        A, B = real_R(vals, qa), real_R(vals, qb)
        ok = close(Lr().relative_so3(A, B), A.T.dot(B))
        return (not ok), "relative_so3 != A^T B" if not ok else "ok"
    _simple(col, fn, [unit(qa), unit(qb)], inputs, goals, replay, "relative_so3")


def case_sim3(case, col):
    q, t, s = qvars("a"), tvars("a"), z3.Real("s")
    inputs = {str(x): x for x in q + t + [s]}

    def fn():
        S = L().sim3(arr3(zR(q)), symnp.array([SymReal(x) for x in t]), SymReal(s))
        return S, L().sim3_scale(S)

    def goals(out):
        S, sc_ = out
        R = zR(q)
        exp = [[s * R[i][j] for j in range(3)] + [t[i]] for i in range(3)] + [[0, 0, 0, 1]]
        return dict(sim3_is_sR_t=mat_eq(S, exp), scale_recovered=z3.BoolVal(sc_ is not sc.POISON) if sc_ is sc.POISON else toz(sc_) == s)

    def replay(vals):
        Rm = real_R(vals, q)
        sv = float(vals["s"])
        S = Lr().sim3(Rm, rnp.array([float(vals[str(x)]) for x in t]), sv)
        got = Lr().sim3_scale(S)
        ok = close(S[:3, :3], sv * Rm) and abs(got - sv) <= 1e-9 * max(1.0, sv)
        return (not ok), "sim3_scale(sim3(R,t,s)) = %r for s = %r" % (got, sv) if not ok else "ok"
    _simple(col, fn, [unit(q), s > 0], inputs, goals, replay, "sim3 / sim3_scale")


def case_sim3_inverse(case, col):
    q, t, s = qvars("a"), tvars("a"), z3.Real("s")
    inputs = {str(x): x for x in q + t + [s]}

    def fn():
        S = L().sim3(arr3(zR(q)), symnp.array([SymReal(x) for x in t]), SymReal(s))
        Si = L().sim3_inverse(S)
        return S, Si

    def goals(out):
        S, Si = out
        R = zR(q)
        Rt = zT(R)
        ti = [-(x / s) for x in zmat_vec(Rt, t)]
        exp = [[Rt[i][j] / s for j in range(3)] + [ti[i]] for i in range(3)] + [[0, 0, 0, 1]]
        return dict(sim3_inverse_is_true_inverse=mat_eq(Si, exp))

    def replay(vals):
        Rm = real_R(vals, q)
        sv = float(vals["s"])
        S = Lr().sim3(Rm, rnp.array([float(vals[str(x)]) for x in t]), sv)
        Si = Lr().sim3_inverse(S)
        m = max(1.0, float(rnp.abs(S).max()), float(rnp.abs(Si).max()))
        ok = rnp.allclose(S.dot(Si), rnp.eye(4), atol=1e-8 * m * m) and rnp.allclose(Si.dot(S), rnp.eye(4), atol=1e-8 * m * m)
        return (not ok), "S * sim3_inverse(S) != I" if not ok else "ok"
    _simple(col, fn, [unit(q), s > 0], inputs, goals, replay, "sim3_inverse")


# -- angle ---------------------------------------------------------------------
def reg(q):
    return symrot.new_rotation(q).view(symnp.SymArray)


def ztrace(M):
    return M[0][0] + M[1][1] + M[2][2]


def case_angle_range_symmetry(case, col):
    qa, qb = qvars("a"), qvars("b")
    inputs = {str(x): x for x in qa + qb}
    pi = sc.q_of(stubs.PI)

    def fn():
        A, B = reg(qa), reg(qb)
        return L().so3_log_angle(L().relative_so3(A, B)), L().so3_log_angle(L().relative_so3(B, A)), L().so3_log_angle(A)

    def goals(out):
        ab, ba, a = out
        tr = ztrace(zmat_mul(zT(zR(qa)), zR(qb)))
        return dict(angle_in_0_pi=z3.And(toz(ab) >= 0, toz(ab) <= pi, toz(a) >= 0, toz(a) <= pi),
                    angle_symmetric=toz(ab) == toz(ba),
                    angle_is_acos_of_trace=toz(ab) == stubs.ACOS((tr - 1) / 2))

    def replay(vals):
        A, B = real_R(vals, qa), real_R(vals, qb)
        x, y = Lr().so3_log_angle(A.T.dot(B)), Lr().so3_log_angle(B.T.dot(A))
        c = min(1.0, max(-1.0, (rnp.trace(A.T.dot(B)) - 1) / 2))
        ok = -1e-12 <= x <= math.pi + 1e-12 and abs(x - y) < 1e-7 and abs(x - math.acos(c)) < 1e-6
        return (not ok), "angle %r / swapped %r / acos %r" % (x, y, math.acos(c)) if not ok else "ok"
    _simple(col, fn, [unit(qa), unit(qb)], inputs, goals, replay, "angle range/symmetry",
            on_exc=lambda pr: col.d["harness_errors"].append(dict(ob="path", why="so3_log refused a rotation: %s" % pr.status)))


def case_log_skew_consistent(case, col):
    """the two return forms of so3_log describe the same logarithm: the skew form is hat() of the rotation vector,
    and its magnitude is the rotation angle -- on all of SO(3), half turns included (added after seed C09d)"""
    qa = qvars("a")
    inputs = {str(x): x for x in qa}

    def fn():
        A = reg(qa)
        return L().so3_log(A), L().so3_log(A, return_skew=True), L().so3_log_angle(A)

    def goals(out):
        v, H, ang = out
        vz = [toz(v[i]) for i in range(3)]
        w = [toz(H[2, 1]), toz(H[0, 2]), toz(H[1, 0])]
        return dict(shapes=z3.BoolVal(v.shape == (3,) and H.shape == (3, 3)),
                    skew_form_is_hat_of_the_rotation_vector=mat_eq(H, [[0, -vz[2], vz[1]], [vz[2], 0, -vz[0]], [-vz[1], vz[0], 0]]),
                    magnitude_of_the_skew_form_is_the_rotation_angle=(w[0] * w[0] + w[1] * w[1] + w[2] * w[2] == toz(ang) * toz(ang)))

    def replay(vals):
        A = real_R(vals, qa)
        v, H, ang = Lr().so3_log(A), Lr().so3_log(A, return_skew=True), Lr().so3_log_angle(A)
        bad = []
        if not close(H, Lr().hat(v), 1e-6):
            bad.append("so3_log(R, return_skew=True) is not hat(so3_log(R))")
        if abs(rnp.linalg.norm(Lr().vee(H)) - ang) > 1e-6:
            bad.append("|vee(log R)| = %r but the rotation angle is %r" % (float(rnp.linalg.norm(Lr().vee(H))), ang))
        return bool(bad), "; ".join(bad) or "ok"
    _simple(col, fn, [unit(qa)], inputs, goals, replay, "so3_log: skew form vs rotation vector",
            on_exc=lambda pr: col.d["harness_errors"].append(dict(ob="path", why="so3_log refused a rotation: %s" % pr.status)))


def case_angle_zero_iff_equal(case, col):
    qa, qb = qvars("a"), qvars("b")
    inputs = {str(x): x for x in qa + qb}

    def fn():
        A, B = reg(qa), reg(qb)
        return L().so3_log_angle(L().relative_so3(A, B)), L().so3_log_angle(L().relative_so3(A, A))

    Ra, Rb = zR(qa), zR(qb)
    same = z3.And([Ra[i][j] == Rb[i][j] for i in range(3) for j in range(3)])
    tr = ztrace(zmat_mul(zT(Ra), Rb))
    # |A-B|_F^2 = 6 - 2 tr(A^T B) for rotations: proved as an obligation (with the differences written
    # out), then used as a hint over fresh difference variables d_ij
    frob = sum((Ra[i][j] - Rb[i][j]) * (Ra[i][j] - Rb[i][j]) for i in range(3) for j in range(3)) == 6 - 2 * tr
    dv = [[z3.Real("d_%d%d" % (i, j)) for j in range(3)] for i in range(3)]
    ddefs = [dv[i][j] == Ra[i][j] - Rb[i][j] for i in range(3) for j in range(3)]
    frob_d = sum(dv[i][j] * dv[i][j] for i in range(3) for j in range(3)) == 6 - 2 * tr

    def goals(out):
        ab, aa = out
        return dict(zero_for_equal_rotations=toz(aa) == 0, frobenius_identity=frob,
                    angle_is_acos_of_half_trace_minus_one=toz(ab) == stubs.ACOS((tr - 1) / 2))

    def replay(vals):
        A, B = real_R(vals, qa), real_R(vals, qb)
        x = Lr().so3_log_angle(A.T.dot(B))
        d = float(rnp.abs(A - B).max())
        bad = []
        if abs(Lr().so3_log_angle(A.T.dot(A))) > 1e-7:
            bad.append("angle(A,A) != 0")
        if x < 1e-9 and d > 1e-4:
            bad.append("angle 0 for different rotations")
        if d < 1e-12 and x > 1e-6:
            bad.append("non-zero angle for equal rotations")
        return bool(bad), "; ".join(bad) or "ok"

    def on_ok(pr):
        ok = runner.check_obligations(col, pr.ctx, lambda: goals(pr.out), inputs, replay, descr="angle zero iff equal", timeout_ms=60000)
        if not ok:
            return
        # chained lemma over fresh c (= (tr-1)/2) and d_ij (= A_ij - B_ij): the Frobenius identity just
        # discharged reads sum d^2 = 4 - 4c; with the acos* contract, angle = 0 <=> all d = 0
        c = z3.Real("c_half_trace")
        alld0 = z3.And([dv[i][j] == 0 for i in range(3) for j in range(3)])
        hyp = [sum(dv[i][j] * dv[i][j] for i in range(3) for j in range(3)) == 4 - 4 * c]
        runner.check_lemma(col, pr.ctx, "zero_only_for_equal_rotations", hyp, z3.Implies(stubs.ACOS(c) == 0, alld0),
                           descr="instantiated at c=(tr(A^T B)-1)/2, d=A-B")
        runner.check_lemma(col, pr.ctx, "equal_rotations_give_zero", hyp, z3.Implies(alld0, stubs.ACOS(c) == 0),
                           descr="instantiated at c=(tr(A^T B)-1)/2, d=A-B")
    runner.explore_case(col, fn, [unit(qa), unit(qb)], on_ok, None, timeout_ms=60000, pins=_auto_pins(inputs))


def _biinv(case, col, left):
    qa, qb, qc = qvars("a"), qvars("b"), qvars("c")
    inputs = {str(x): x for x in qa + qb + qc}

    def fn():
        A, B, C = reg(qa), reg(qb), reg(qc)
        if left:
            A2, B2 = symnp.dot(C, A), symnp.dot(C, B)
        else:
            A2, B2 = symnp.dot(A, C), symnp.dot(B, C)
        return L().so3_log_angle(L().relative_so3(A, B)), L().so3_log_angle(L().relative_so3(A2, B2))

    def goals(out):
        x, y = out
        return {"angle_%s_invariant" % ("left" if left else "right"): toz(x) == toz(y)}

    def replay(vals):
        A, B, C = real_R(vals, qa), real_R(vals, qb), real_R(vals, qc)
        x = Lr().so3_log_angle(A.T.dot(B))
        y = Lr().so3_log_angle((C.dot(A)).T.dot(C.dot(B))) if left else Lr().so3_log_angle((A.dot(C)).T.dot(B.dot(C)))
        return abs(x - y) > 1e-6, "angle %r vs moved %r" % (x, y)
    _simple(col, fn, [unit(qa), unit(qb), unit(qc)], inputs, goals, replay, "bi-invariance", timeout_ms=120000)


def case_angle_biinvariant_left(case, col):
    _biinv(case, col, True)


def case_angle_biinvariant_right(case, col):
    _biinv(case, col, False)


def case_angle_degrees(case, col):
    qa = qvars("a")
    inputs = {str(x): x for x in qa}

    def fn():
        A = reg(qa)
        return L().so3_log_angle(A), L().so3_log_angle(A, True)

    def goals(out):
        r, d = out
        return dict(degrees_is_radians_times_180_over_pi=toz(d) == toz(r) * sc.q_of(Fraction(180) / stubs.PI))

    def replay(vals):
        A = real_R(vals, qa)
        r, d = Lr().so3_log_angle(A), Lr().so3_log_angle(A, True)
        return abs(d - math.degrees(r)) > 1e-9 * max(1, abs(d)), "deg %r rad %r" % (d, r)
    _simple(col, fn, [unit(qa)], inputs, goals, replay, "degrees")


# -- membership -------------------------------------------------------------------
def _member_obl(col, fn, assume, inputs, expect, name, replay, pins=None):
    """the function must return `expect` (bool) on every path"""
    def on_ok(pr):
        res = pr.out
        if isinstance(res, sc.SymBool):
            g = res.z if expect else z3.Not(res.z)
        else:
            g = z3.BoolVal(bool(res) == expect)
        runner.check_obligations(col, pr.ctx, {name: g}, inputs, replay, descr=name, timeout_ms=60000)
    runner.explore_case(col, fn, assume, on_ok, None, timeout_ms=60000, pins=pins or _auto_pins(inputs))


def case_member_accept(case, col):
    q, t, s = qvars("a"), tvars("a"), z3.Real("s")
    inputs = {str(x): x for x in q + t + [s]}

    def rp(f):
        def replay(vals):
            P = real_pose(vals, q, t)
            S = Lr().sim3(P[:3, :3], P[:3, 3], float(vals["s"]))
            ok = {"so3": Lr().is_so3(P[:3, :3]), "se3": Lr().is_se3(P), "sim3": Lr().is_sim3(S), "sim3s": Lr().is_sim3(S, float(vals["s"])),
                  "se3_as_sim3": Lr().is_sim3(P)}[f]
            return (not ok), "genuine group element rejected by is_%s" % f
        return replay
    _member_obl(col, lambda: L().is_so3(arr3(zR(q))), [unit(q)], inputs, True, "is_so3_accepts_every_rotation", rp("so3"))
    _member_obl(col, lambda: L().is_se3(pose(q, t)), [unit(q)], inputs, True, "is_se3_accepts_every_pose", rp("se3"))
    _member_obl(col, lambda: L().is_sim3(pose(q, t)), [unit(q)], inputs, True, "is_sim3_accepts_every_se3_pose", rp("se3_as_sim3"))
    _member_obl(col, lambda: L().is_sim3(L().sim3(arr3(zR(q)), symnp.array([SymReal(x) for x in t]), SymReal(s)), SymReal(s)),
                [unit(q), s > 0], inputs, True, "is_sim3_accepts_every_similarity_given_scale", rp("sim3s"))
    _member_obl(col, lambda: L().is_sim3(L().sim3(arr3(zR(q)), symnp.array([SymReal(x) for x in t]), SymReal(s))),
                [unit(q), s > 0], inputs, True, "is_sim3_accepts_every_similarity", rp("sim3"))


def case_member_reject_reflection(case, col):
    q, t = qvars("a"), tvars("a")
    inputs = {str(x): x for x in q + t}
    neg = [[-v for v in row] for row in zR(q)]

    def refl_pose():
        M = rnp.empty((4, 4), dtype=object)
        M[:3, :3] = rnp.asarray(arr3(neg))
        M[:3, 3] = [SymReal(v) for v in t]
        M[3, :] = [0, 0, 0, 1]
        return M.view(symnp.SymArray)

    def rp(f):
        def replay(vals):
            P = real_pose(vals, q, t)
            P[:3, :3] *= -1
            ok = {"so3": Lr().is_so3(P[:3, :3]), "se3": Lr().is_se3(P), "sim3": Lr().is_sim3(P)}[f]
            return bool(ok), "reflection accepted by is_%s" % f
        return replay
    # mirror about one axis as well
    mir = [[zR(q)[i][j] * (-1 if j == 2 else 1) for j in range(3)] for i in range(3)]
    _member_obl(col, lambda: L().is_so3(arr3(neg)), [unit(q)], inputs, False, "is_so3_rejects_minus_R", rp("so3"))
    _member_obl(col, lambda: L().is_so3(arr3(mir)), [unit(q)], inputs, False, "is_so3_rejects_mirrored_R",
                lambda vals: (bool(Lr().is_so3(real_R(vals, q) * rnp.array([1, 1, -1]))), "mirror accepted"))
    _member_obl(col, lambda: L().is_se3(refl_pose()), [unit(q)], inputs, False, "is_se3_rejects_reflection", rp("se3"))
    _member_obl(col, lambda: L().is_sim3(refl_pose()), [unit(q)], inputs, False, "is_sim3_rejects_reflection", rp("sim3"))


def case_member_reject_scaled(case, col):
    q, k = qvars("a"), z3.Real("k")
    inputs = {str(x): x for x in q + [k]}
    far = z3.And(k > 0, z3.Or(k - 1 >= sc.q_of(Fraction(1, 10 ** 5)), 1 - k >= sc.q_of(Fraction(1, 10 ** 5))))
    M = [[k * v for v in row] for row in zR(q)]
    _member_obl(col, lambda: L().is_so3(arr3(M)), [unit(q), far], inputs, False, "is_so3_rejects_k_R_with_abs_k_minus_1_ge_1e-5",
                lambda vals: (bool(Lr().is_so3(float(vals["k"]) * real_R(vals, q))), "scaled rotation k=%r accepted" % float(vals["k"])))


def case_member_reject_sheared(case, col):
    q, e = qvars("a"), z3.Real("eps")
    inputs = {str(x): x for x in q + [e]}
    big = z3.Or(e >= sc.q_of(Fraction(1, 10 ** 4)), e <= -sc.q_of(Fraction(1, 10 ** 4)))
    Rz = zR(q)
    # R * (I + eps * e0 e1^T): column 1 gets eps * column 0
    M = [[Rz[i][j] + (e * Rz[i][0] if j == 1 else 0) for j in range(3)] for i in range(3)]

    def replay(vals):
        Rm = real_R(vals, q)
        Sh = rnp.eye(3)
        Sh[0, 1] = float(vals["eps"])
        return bool(Lr().is_so3(Rm.dot(Sh))), "sheared rotation eps=%r accepted" % float(vals["eps"])
    _member_obl(col, lambda: L().is_so3(arr3(M)), [unit(q), big], inputs, False, "is_so3_rejects_shear_ge_1e-4", replay)


def case_member_reject_bottom_row(case, col):
    q, t = qvars("a"), tvars("a")
    b = [z3.Real("b%d" % i) for i in range(4)]
    inputs = {str(x): x for x in q + t + b}
    wrong = z3.Or(b[0] != 0, b[1] != 0, b[2] != 0, b[3] != 1)

    def mk_pose():
        M = rnp.asarray(pose(q, t)).copy()
        M[3, :] = [SymReal(x) for x in b]
        return M.view(symnp.SymArray)

    def rp(f):
        def replay(vals):
            P = real_pose(vals, q, t)
            P[3, :] = [float(vals[str(x)]) for x in b]
            if list(P[3, :]) == [0, 0, 0, 1]:
                return False, "bottom row is the valid one"
            ok = Lr().is_se3(P) if f == "se3" else Lr().is_sim3(P)
            return bool(ok), "bottom row %r accepted by is_%s" % (list(P[3, :]), f)
        return replay
    _member_obl(col, lambda: L().is_se3(mk_pose()), [unit(q), wrong], inputs, False, "is_se3_rejects_wrong_bottom_row", rp("se3"))
    _member_obl(col, lambda: L().is_sim3(mk_pose()), [unit(q), wrong], inputs, False, "is_sim3_rejects_wrong_bottom_row", rp("sim3"))


def case_is_sim3_scaled_margin(case, col):
    """is_sim3(M, s) for M = k*s*R must reject |k-1| >= 1e-5 for *every* scale s > 0
    (the tolerance has to be relative to the scale)"""
    q, k, s = qvars("a"), z3.Real("k"), z3.Real("s")
    inputs = {str(x): x for x in q + [k, s]}
    far = z3.And(k > 0, z3.Or(k - 1 >= sc.q_of(Fraction(1, 10 ** 5)), 1 - k >= sc.q_of(Fraction(1, 10 ** 5))))

    def fn():
        M = rnp.asarray(pose(q, [z3.RealVal(0)] * 3)).copy()
        Rz = zR(q)
        for i in range(3):
            for j in range(3):
                M[i, j] = sc.mk(z3.simplify(k * s * Rz[i][j]))
        return L().is_sim3(M.view(symnp.SymArray), SymReal(s))

    def replay(vals):
        P = rnp.eye(4)
        P[:3, :3] = float(vals["k"]) * float(vals["s"]) * real_R(vals, q)
        return bool(Lr().is_sim3(P, float(vals["s"]))), "k*s*R with k=%r, s=%r accepted as Sim(3) of scale s" % (float(vals["k"]), float(vals["s"]))
    _member_obl(col, fn, [unit(q), far, s > 0], inputs, False, "is_sim3_rejects_wrong_scale_at_every_magnitude", replay)
    # sheared block at any scale, scale estimated from the matrix
    e = z3.Real("eps")
    inputs2 = {str(x): x for x in q + [e, s]}
    big = z3.Or(e >= sc.q_of(Fraction(1, 10 ** 3)), e <= -sc.q_of(Fraction(1, 10 ** 3)))

    def fn2():
        M = rnp.asarray(pose(q, [z3.RealVal(0)] * 3)).copy()
        Rz = zR(q)
        for i in range(3):
            for j in range(3):
                M[i, j] = sc.mk(z3.simplify(s * (Rz[i][j] + (e * Rz[i][0] if j == 1 else 0))))
        return L().is_sim3(M.view(symnp.SymArray), SymReal(s))

    def replay2(vals):
        Sh = rnp.eye(3)
        Sh[0, 1] = float(vals["eps"])
        P = rnp.eye(4)
        P[:3, :3] = float(vals["s"]) * real_R(vals, q).dot(Sh)
        return bool(Lr().is_sim3(P, float(vals["s"]))), "sheared s*R (eps=%r, s=%r) accepted" % (float(vals["eps"]), float(vals["s"]))
    _member_obl(col, fn2, [unit(q), big, s > 0], inputs2, False, "is_sim3_rejects_shear_at_every_magnitude", replay2)


def case_so3_log_refuses_non_rotation(case, col):
    q = qvars("a")
    inputs = {str(x): x for x in q}
    neg = [[-v for v in row] for row in zR(q)]

    def fn():
        return L().so3_log(arr3(neg))

    def on_ok(pr):
        runner.check_obligations(col, pr.ctx, dict(so3_log_refuses_reflection=z3.BoolVal(False)), inputs,
                                 lambda vals: (True, "so3_log accepted -R"))

    def on_exc(pr):
        runner.check_obligations(col, pr.ctx, dict(so3_log_refuses_reflection=z3.BoolVal(pr.status == "exc:LieAlgebraException")),
                                 inputs, lambda vals: (True, "wrong exception"))
    runner.explore_case(col, fn, [unit(q)], on_ok, on_exc, timeout_ms=60000, pins=_auto_pins(inputs))


def replay_file(rec):
    return False, "re-run ./check C09 (witness embedded in the record)"
