"""C01 -- APE values equal the definition, pose by pose.

Real functions executed: metrics.APE.process_data / ape_base, lie_algebra.relative_se3,
se3_inverse, so3_log_angle, is_so3, PosePath3D (both storage modes, incl.
transformations.quaternion_matrix), main_ape.ape (option wiring).
"""
from fractions import Fraction
import math

import numpy as rnp
import z3

from evoverif import runner, symcore as sc, symnp, symrot, stubs
from evoverif.symcore import SymReal, toz
from . import common
from .common import SymTraj, zR, zT, zmat_mul, zmat_vec

PROPERTY = "C01"
FUNCTIONS = ["evo.core.metrics.APE.process_data", "APE.ape_base", "lie_algebra.relative_se3", "se3_inverse", "so3_log_angle",
             "so3_log", "is_so3", "trajectory.PosePath3D.poses_se3/positions_xyz", "transformations.quaternion_matrix",
             "evo.main_ape.ape", "PosePath3D.align_origin", "PosePath3D.transform", "PE.change_unit"]
BOUNDS = {"quick": "N <= 2 poses per trajectory for the definitional obligations (every index is decided separately), "
                   "7 pose relations x 2 storage modes; ape() option wiring on N = 2",
          "thorough": "N <= 3; ape() wiring N = 3"}
STUBS = ["scipy Rotation.as_rotvec: angle = acos*((tr-1)/2)", "linalg.norm: r>=0, r^2 = sum of squares",
         "numpy.linalg.eigh inside quaternion_from_matrix: unit quaternion of the rotation block, sign free"]
ASSUMPTIONS = ["orientations are unit quaternions / R(q), q.q = 1"]
OUTSIDE = ["numerical behaviour at relative angles within 1e-12 of 0/pi", "lengths beyond the bound",
           "file loading and the run() driver are covered with C06/C07/C15 machinery (text cells)"]
MODS = ("evo.main_ape",)

RELS = ["translation_part", "point_distance", "rotation_angle_rad", "rotation_angle_deg", "rotation_part",
        "full_transformation"]


def worker_init():
    common.ensure_loaded(MODS)


def cases(tier, seed):
    out = [dict(name="rotation_lemmas", kind="lemmas")]
    ns = [1, 2] if tier == "quick" else [1, 2, 3]
    for rel in RELS:
        for mode in ("se3", "quat"):
            for n in ns:
                out.append(dict(name="def_%s_%s_N%d" % (rel, mode, n), kind="def", rel=rel, mode=mode, n=n))
            out.append(dict(name="coincide_%s_%s" % (rel, mode), kind="coincide", rel=rel, mode=mode, n=2))
            out.append(dict(name="swap_%s_%s" % (rel, mode), kind="swap", rel=rel, mode=mode, n=2 if tier != "quick" else 1))
            out.append(dict(name="rigid_%s_%s" % (rel, mode), kind="rigid", rel=rel, mode=mode, n=1))
    out.append(dict(name="mixed_storage_full", kind="def", rel="full_transformation", mode="mixed", n=2))
    out.append(dict(name="ratio_refused", kind="refuse_ratio"))
    for a, b in ((1, 2), (2, 1), (3, 2)):
        out.append(dict(name="unequal_length_%d_%d" % (a, b), kind="unequal", a=a, b=b))
    for opt in ("plain", "align_origin", "change_unit_mm", "align_origin_full", "swap_args_wiring"):
        out.append(dict(name="ape_fn_%s" % opt, kind="apefn", opt=opt, n=2 if tier == "quick" else 3))
    return out


def run_case(case, col):
    k = case["kind"]
    if k == "lemmas":
        from evoverif import lemmas
        return lemmas.lemma_case(col)
    globals()["run_" + k](case, col)


def M():
    return common.S("evo.core.metrics")


# --------------------------------------------------------------------------
# the definition, written directly over the input variables
# --------------------------------------------------------------------------
def zpose(q, p):
    R = zR(q)
    return [R[0] + [p[0]], R[1] + [p[1]], R[2] + [p[2]], [0, 0, 0, 1]]


def zinv(q, p):
    Rt = zT(zR(q))
    ti = [-x for x in zmat_vec(Rt, p)]
    return [Rt[0] + [ti[0]], Rt[1] + [ti[1]], Rt[2] + [ti[2]], [0, 0, 0, 1]]


def spec_value(rel, qr, pr, qe, pe):
    """returns (kind, term): kind 'sq' -> value >= 0 and value^2 == term; 'eq' -> value == term"""
    if rel in ("translation_part", "point_distance"):
        return "sq", sum((pe[c] - pr[c]) * (pe[c] - pr[c]) for c in range(3))
    E = zmat_mul(zinv(qe, pe), zpose(qr, pr))          # est^-1 * ref
    if rel == "rotation_part":
        return "sq", sum((E[i][j] - (1 if i == j else 0)) * (E[i][j] - (1 if i == j else 0)) for i in range(3) for j in range(3))
    if rel == "full_transformation":
        return "sq", sum((E[i][j] - (1 if i == j else 0)) * (E[i][j] - (1 if i == j else 0)) for i in range(4) for j in range(4))
    tr = E[0][0] + E[1][1] + E[2][2]
    ang = stubs.ACOS((tr - 1) / 2)
    if rel == "rotation_angle_rad":
        return "eq", ang
    return "eq", ang * sc.q_of(Fraction(180) / stubs.PI)


def value_goal(v, kind, term):
    if v is sc.POISON:
        return z3.BoolVal(False)
    if kind == "eq":
        return toz(v) == term
    rad = sc.radicand_of(v)
    if rad is not None:
        return rad == term
    return z3.And(toz(v) >= 0, toz(v) * toz(v) == term)


def concrete_value(rel, Pr, Pe):
    E = rnp.linalg.inv(Pe).dot(Pr)
    if rel in ("translation_part", "point_distance"):
        return float(rnp.linalg.norm(Pe[:3, 3] - Pr[:3, 3]))
    if rel == "rotation_part":
        return float(rnp.linalg.norm(E[:3, :3] - rnp.eye(3)))
    if rel == "full_transformation":
        return float(rnp.linalg.norm(E - rnp.eye(4)))
    c = min(1.0, max(-1.0, (rnp.trace(E[:3, :3]) - 1) / 2))
    a = math.acos(c)
    return a if rel == "rotation_angle_rad" else math.degrees(a)


def build(T, mode, which):
    if mode == "mixed":
        return T.build("se3" if which == 0 else "quat")
    return T.build(mode)


def conc(T, vals, mode, which):
    if mode == "mixed":
        return T.concrete(vals, "se3" if which == 0 else "quat")
    return T.concrete(vals, mode)


def oracle_errors(rel, tr, te, errs, what="value"):
    bad = []
    if len(errs) != tr.num_poses:
        return ["%d values for %d poses" % (len(errs), tr.num_poses)]
    for i in range(tr.num_poses):
        exp = concrete_value(rel, tr.poses_se3[i], te.poses_se3[i])
        tol = 1e-6 if "angle" in rel else 1e-8
        if abs(float(errs[i]) - exp) > tol * max(1.0, abs(exp)) + (2e-6 if "angle" in rel else 0):
            bad.append("%s[%d] = %r, definition gives %r" % (what, i, float(errs[i]), exp))
    return bad


def run_def(case, col):
    rel, mode, n = case["rel"], case["mode"], case["n"]
    Rf, Es = SymTraj("r", n, stamps=False), SymTraj("e", n, stamps=False)
    inputs = dict(Rf.inputs(), **Es.inputs())
    assume = Rf.assumptions() + Es.assumptions()

    def fn():
        m = M().APE(M().PoseRelation[rel])
        m.process_data((build(Rf, mode, 0), build(Es, mode, 1)))
        return m

    def replay(vals):
        Mr = common.R("evo.core.metrics")
        tr, te = conc(Rf, vals, mode, 0), conc(Es, vals, mode, 1)
        m = Mr.APE(Mr.PoseRelation[rel])
        m.process_data((tr, te))
        bad = oracle_errors(rel, tr, te, m.error)
        return bool(bad), "; ".join(bad) or "ok"

    def on_ok(pr):
        m = pr.out
        g = {"one_value_per_pose": z3.BoolVal(len(m.error) == n)}
        if len(m.error) == n:
            for i in range(n):
                kind, term = spec_value(rel, Rf.q[i], Rf.p[i], Es.q[i], Es.p[i])
                g["value_%d_equals_definition" % i] = value_goal(m.error[i], kind, term)
        runner.check_obligations(col, pr.ctx, g, inputs, replay, descr="APE %s %s N=%d" % (rel, mode, n), timeout_ms=90000)

    runner.explore_case(col, fn, assume, on_ok, None, timeout_ms=90000, pins=common.pins_for(Rf, Es))


def run_coincide(case, col):
    rel, mode, n = case["rel"], case["mode"], case["n"]
    Rf = SymTraj("r", n, stamps=False)
    inputs = Rf.inputs()

    def fn():
        m = M().APE(M().PoseRelation[rel])
        m.process_data((Rf.build(mode), Rf.build(mode)))
        return m

    def replay(vals):
        Mr = common.R("evo.core.metrics")
        m = Mr.APE(Mr.PoseRelation[rel])
        m.process_data((Rf.concrete(vals, mode), Rf.concrete(vals, mode)))
        bad = [i for i in range(n) if abs(float(m.error[i])) > 1e-6]
        return bool(bad), "non-zero error %r for coinciding trajectories" % (list(m.error),)

    def on_ok(pr):
        m = pr.out
        g = {"zero_when_trajectories_coincide": z3.And([sc.eq_goal(m.error[i], 0) if sc.radicand_of(m.error[i]) is None
                                                        else sc.radicand_of(m.error[i]) == 0 for i in range(n)])
             if len(m.error) == n else z3.BoolVal(False)}
        runner.check_obligations(col, pr.ctx, g, inputs, replay, descr="coincide %s %s" % (rel, mode), timeout_ms=90000)
    runner.explore_case(col, fn, Rf.assumptions(), on_ok, None, timeout_ms=90000, pins=common.pins_for(Rf))


def run_swap(case, col):
    rel, mode, n = case["rel"], case["mode"], case["n"]
    Rf, Es = SymTraj("r", n, stamps=False), SymTraj("e", n, stamps=False)
    inputs = dict(Rf.inputs(), **Es.inputs())

    def fn():
        m1 = M().APE(M().PoseRelation[rel])
        m1.process_data((Rf.build(mode), Es.build(mode)))
        m2 = M().APE(M().PoseRelation[rel])
        m2.process_data((Es.build(mode), Rf.build(mode)))
        return m1, m2

    def replay(vals):
        Mr = common.R("evo.core.metrics")
        m1 = Mr.APE(Mr.PoseRelation[rel])
        m1.process_data((Rf.concrete(vals, mode), Es.concrete(vals, mode)))
        m2 = Mr.APE(Mr.PoseRelation[rel])
        m2.process_data((Es.concrete(vals, mode), Rf.concrete(vals, mode)))
        d = float(rnp.abs(rnp.asarray(m1.error) - rnp.asarray(m2.error)).max())
        return d > 1e-6, "swapped arguments change the error by %r" % d

    def on_ok(pr):
        m1, m2 = pr.out
        g = {"unchanged_when_reference_and_estimate_are_swapped":
             z3.And([sc.eq_goal(m1.error[i], m2.error[i]) for i in range(n)]) if len(m1.error) == len(m2.error) == n else z3.BoolVal(False)}
        runner.check_obligations(col, pr.ctx, g, inputs, replay, descr="swap %s %s" % (rel, mode), timeout_ms=120000)
    runner.explore_case(col, fn, Rf.assumptions() + Es.assumptions(), on_ok, None, timeout_ms=120000, pins=common.pins_for(Rf, Es))


def run_rigid(case, col):
    """both trajectories moved by the same symbolic rigid motion T (left multiplication of poses)"""
    rel, mode, n = case["rel"], case["mode"], case["n"]
    Rf, Es, Tm = SymTraj("r", n, stamps=False), SymTraj("e", n, stamps=False), SymTraj("T", 1, stamps=False)
    inputs = dict(Rf.inputs(), **Es.inputs())
    inputs.update(Tm.inputs())
    Tt = common.S("evo.core.trajectory")

    def moved(traj, T):
        return Tt.PosePath3D(poses_se3=[symnp.dot(T, p) for p in traj.poses_se3])

    def fn():
        T = Tm.poses()[0]
        a, b = Rf.build(mode), Es.build(mode)
        m1 = M().APE(M().PoseRelation[rel])
        m1.process_data((a, b))
        m2 = M().APE(M().PoseRelation[rel])
        m2.process_data((moved(Rf.build(mode), T), moved(Es.build(mode), T)))
        return m1, m2

    def replay(vals):
        Mr, Tr = common.R("evo.core.metrics"), common.R("evo.core.trajectory")
        T = Tm.concrete(vals, "se3").poses_se3[0]
        a, b = Rf.concrete(vals, mode), Es.concrete(vals, mode)
        m1 = Mr.APE(Mr.PoseRelation[rel])
        m1.process_data((a, b))
        m2 = Mr.APE(Mr.PoseRelation[rel])
        m2.process_data((Tr.PosePath3D(poses_se3=[T.dot(p) for p in a.poses_se3]), Tr.PosePath3D(poses_se3=[T.dot(p) for p in b.poses_se3])))
        d = float(rnp.abs(rnp.asarray(m1.error) - rnp.asarray(m2.error)).max())
        sc_ = max(1.0, float(rnp.abs(T).max()), float(rnp.abs(a.positions_xyz).max()), float(rnp.abs(b.positions_xyz).max()))
        return d > 1e-6 * sc_ * sc_, "a common rigid motion changes the error by %r" % d

    def on_ok(pr):
        m1, m2 = pr.out
        g = {"unchanged_under_a_common_rigid_motion":
             z3.And([sc.eq_goal(m1.error[i], m2.error[i]) for i in range(n)]) if len(m1.error) == len(m2.error) == n else z3.BoolVal(False)}
        runner.check_obligations(col, pr.ctx, g, inputs, replay, descr="rigid %s %s" % (rel, mode), timeout_ms=120000)
    runner.explore_case(col, fn, Rf.assumptions() + Es.assumptions() + Tm.assumptions(), on_ok, None, timeout_ms=120000,
                        pins=common.pins_for(Rf, Es, Tm))


def run_refuse_ratio(case, col):
    Rf = SymTraj("r", 2, stamps=False)

    def fn():
        m = M().APE(M().PoseRelation.point_distance_error_ratio)
        m.process_data((Rf.build("se3"), Rf.build("se3")))
        return m

    def on_ok(pr):
        runner.check_obligations(col, pr.ctx, dict(ratio_relation_refused_by_APE=z3.BoolVal(False)), Rf.inputs(),
                                 lambda v: (True, "APE accepted point_distance_error_ratio"))

    def on_exc(pr):
        runner.check_obligations(col, pr.ctx, dict(ratio_relation_refused_by_APE=z3.BoolVal(pr.status == "exc:MetricsException")),
                                 Rf.inputs(), lambda v: (True, "wrong exception " + pr.status))
    runner.explore_case(col, fn, Rf.assumptions(), on_ok, on_exc, pins=common.pins_for(Rf))


def run_unequal(case, col):
    a, b = case["a"], case["b"]
    Rf, Es = SymTraj("r", a, stamps=False), SymTraj("e", b, stamps=False)
    inputs = dict(Rf.inputs(), **Es.inputs())
    for rel in RELS:
        for mode in ("se3", "quat"):
            def fn(rel=rel, mode=mode):
                m = M().APE(M().PoseRelation[rel])
                m.process_data((Rf.build(mode), Es.build(mode)))
                return m

            def rp(vals, rel=rel, mode=mode):
                Mr = common.R("evo.core.metrics")
                m = Mr.APE(Mr.PoseRelation[rel])
                try:
                    m.process_data((Rf.concrete(vals, mode), Es.concrete(vals, mode)))
                except Mr.MetricsException:
                    return False, "refused"
                except Exception as e:     # noqa: BLE001
                    return True, "wrong exception %s" % type(e).__name__
                return True, "sequences of %d and %d poses accepted (%d values)" % (a, b, len(m.error))

            def on_ok(pr, rp=rp, rel=rel, mode=mode):
                runner.check_obligations(col, pr.ctx, {"unequal_lengths_refused_%s_%s" % (rel, mode): z3.BoolVal(False)}, inputs, rp)

            def on_exc(pr, rp=rp, rel=rel, mode=mode):
                runner.check_obligations(col, pr.ctx, {"unequal_lengths_refused_%s_%s" % (rel, mode): z3.BoolVal(pr.status == "exc:MetricsException")}, inputs, rp)
            runner.explore_case(col, fn, Rf.assumptions() + Es.assumptions(), on_ok, on_exc, pins=common.pins_for(Rf, Es))


# --------------------------------------------------------------------------
# main_ape.ape(): option wiring (alignment with SVD is C04's; projection is C14's)
# --------------------------------------------------------------------------
def run_apefn(case, col):
    opt, n = case["opt"], case["n"]
    MA = common.S("evo.main_ape")
    U = common.S("evo.core.units")
    Rf, Es = SymTraj("r", n), SymTraj("e", n)
    inputs = dict(Rf.inputs(), **Es.inputs())
    rel = "full_transformation" if opt == "align_origin_full" else "translation_part"
    kw = {}
    if opt.startswith("align_origin"):
        kw["align_origin"] = True
    if opt == "change_unit_mm":
        kw["change_unit"] = "millimeters"

    def fn():
        tr, te = Rf.build("se3"), Es.build("se3")
        k2 = dict(kw)
        if "change_unit" in k2:
            k2["change_unit"] = U.Unit[k2["change_unit"]]
        if opt == "swap_args_wiring":
            return MA.ape(traj_ref=tr, traj_est=te, pose_relation=M().PoseRelation[rel], ref_name="REF", est_name="EST")
        return MA.ape(tr, te, M().PoseRelation[rel], ref_name="REF", est_name="EST", **k2)

    def expected_terms(i):
        qe, pe = Es.q[i], Es.p[i]
        if opt.startswith("align_origin"):
            # est_i' = ref_0 * est_0^-1 * est_i
            Tm = zmat_mul(zpose(Rf.q[0], Rf.p[0]), zinv(Es.q[0], Es.p[0]))
            Pe = zmat_mul(Tm, zpose(qe, pe))
            return Pe
        return zpose(qe, pe)

    def replay(vals):
        MAr, Mr, Ur = common.R("evo.main_ape"), common.R("evo.core.metrics"), common.R("evo.core.units")
        tr, te = Rf.concrete(vals, "se3"), Es.concrete(vals, "se3")
        tr0, te0 = Rf.concrete(vals, "se3"), Es.concrete(vals, "se3")
        k2 = dict(kw)
        if "change_unit" in k2:
            k2["change_unit"] = Ur.Unit[k2["change_unit"]]
        res = MAr.ape(tr, te, Mr.PoseRelation[rel], ref_name="REF", est_name="EST", **k2)
        errs = res.np_arrays["error_array"]
        if opt.startswith("align_origin"):
            T = tr0.poses_se3[0].dot(rnp.linalg.inv(te0.poses_se3[0]))
            te0 = common.R("evo.core.trajectory").PoseTrajectory3D(poses_se3=[T.dot(p) for p in te0.poses_se3], timestamps=te0.timestamps)
        f = 1000.0 if opt == "change_unit_mm" else 1.0
        bad = oracle_errors(rel, tr0, te0, rnp.asarray(errs) / f, "error_array")
        return bool(bad), "; ".join(bad) or "ok"

    def on_ok(pr):
        res = pr.out
        ea = res.np_arrays.get("error_array")
        g = {"one_value_per_pose": z3.BoolVal(ea is not None and len(ea) == n)}
        if ea is not None and len(ea) == n:
            f = Fraction(1000) if opt == "change_unit_mm" else Fraction(1)
            for i in range(n):
                Pe = expected_terms(i)
                Pr = zpose(Rf.q[i], Rf.p[i])
                if rel == "translation_part":
                    term = sum((Pe[c][3] - Pr[c][3]) * (Pe[c][3] - Pr[c][3]) for c in range(3)) * sc.q_of(f * f)
                elif opt == "align_origin_full":
                    # decomposition (DESIGN 2.5 item 6): (1) the processed estimate stored in the result equals
                    # T * est_i entrywise, (2) the stored values are what APE.process_data returns on the stored
                    # pair, (3) process_data equals the definition for arbitrary pairs (cases def_*)
                    st = res.trajectories["EST"].poses_se3[i]
                    g["processed_estimate_%d_is_ref0_est0inv_est_i" % i] = z3.And(
                        [toz(st[a, b]) == (Pe[a][b] if z3.is_expr(Pe[a][b]) else sc.q_of(Fraction(Pe[a][b])))
                         for a in range(4) for b in range(4)])
                    continue
                else:
                    # E = Pe^-1 Pr with Pe = [Re te]: inverse written out
                    Re = [[Pe[a][b] for b in range(3)] for a in range(3)]
                    te = [Pe[a][3] for a in range(3)]
                    Rt = zT(Re)
                    ti = [-x for x in zmat_vec(Rt, te)]
                    Pi = [Rt[0] + [ti[0]], Rt[1] + [ti[1]], Rt[2] + [ti[2]], [0, 0, 0, 1]]
                    E = zmat_mul(Pi, Pr)
                    term = sum((E[a][b] - (1 if a == b else 0)) * (E[a][b] - (1 if a == b else 0)) for a in range(4) for b in range(4))
                g["stored_value_%d_is_definition_on_processed_pair" % i] = value_goal(ea[i], "sq", term)
            if opt == "align_origin_full":
                import copy
                m2 = M().APE(M().PoseRelation[rel])
                m2.process_data((copy.deepcopy(res.trajectories["REF"]), copy.deepcopy(res.trajectories["EST"])))
                g["stored_values_are_process_data_on_the_stored_pair"] = z3.And(
                    [sc.eq_goal(ea[i], m2.error[i]) for i in range(n)]) if len(m2.error) == n else z3.BoolVal(False)
                g["stored_reference_is_the_input_reference"] = z3.And(
                    [toz(res.trajectories["REF"].poses_se3[i][a, b]) == (zpose(Rf.q[i], Rf.p[i])[a][b] if z3.is_expr(zpose(Rf.q[i], Rf.p[i])[a][b])
                                                                            else sc.q_of(Fraction(zpose(Rf.q[i], Rf.p[i])[a][b])))
                     for i in range(n) for a in range(4) for b in range(4)])
            if opt.startswith("align_origin"):
                at = res.np_arrays.get("alignment_transformation_sim3")
                Tm = zmat_mul(zpose(Rf.q[0], Rf.p[0]), zinv(Es.q[0], Es.p[0]))
                g["recorded_alignment_is_ref0_times_est0_inverse"] = (
                    z3.And([toz(at[a, b]) == (Tm[a][b] if z3.is_expr(Tm[a][b]) else sc.q_of(Fraction(Tm[a][b])))
                            for a in range(4) for b in range(4)]) if at is not None else z3.BoolVal(False))
        runner.check_obligations(col, pr.ctx, g, inputs, replay, descr="ape() %s N=%d" % (opt, n), timeout_ms=120000)

    runner.explore_case(col, fn, Rf.assumptions() + Es.assumptions(), on_ok, None, timeout_ms=120000, pins=common.pins_for(Rf, Es))


def replay_file(rec):
    return False, "re-run ./check C01 (witness embedded in the record)"
