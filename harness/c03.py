"""C03 -- Umeyama alignment: proper rotation, closed form of eq. 40-43, degenerate inputs refused.

geometry.umeyama_alignment is executed on symbolic 3xn point sets with the SVD contract stub
(u = su R(qu), v = sv R(qv), d0>=d1>=d2>=0, u diag(d) v = cov, classical invariants).  Decided
for every input and every SVD outcome within the contract: the returned (r, t, c) is Umeyama's
closed form; r is a proper rotation; c, t formulas; translation optimality; refusals.
That the closed form *is* the least-squares optimum is Umeyama's theorem (trusted, not decided).
"""
from fractions import Fraction
import itertools

import numpy as rnp
import z3

from evoverif import runner, symcore as sc, symnp, symrot, stubs
from evoverif.symcore import SymReal, toz
from . import common
from .common import zmat_mul, zT, zmat_vec

PROPERTY = "C03"
FUNCTIONS = ["evo.core.geometry.umeyama_alignment"]
BOUNDS = {"quick": "n = 1..4 points in R^3, with/without scale, all four sign outcomes of the SVD and all rank outcomes",
          "thorough": "n = 1..5"}
STUBS = ["numpy.linalg.svd: contract stub (orthogonal factors su*R(qu), sv*R(qv); ordered non-negative singular values; "
         "factorisation; sum d^2 = |A|_F^2, sum of squared 2x2 minors, det A = su*sv*d0*d1*d2)",
         "linalg.norm: sqrt stub (sqrt(x)^2 = x)", "registry: det(s R(q)) = s, products of rotations via quaternion products (lemmas A-E)"]
ASSUMPTIONS = ["LAPACK's SVD meets the stated contract (checked numerically in the replay)"]
OUTSIDE = ["least-squares optimality of Umeyama's closed form over all rotations (theorem, trusted)",
           "noise-free recovery / equivariance for inputs that determine the rotation uniquely (needs SVD uniqueness)",
           "float rank decisions near eps"]


def worker_init():
    common.ensure_loaded()


def cases(tier, seed):
    out = [dict(name="rotation_lemmas", kind="lemmas")]
    nmax = 4 if tier == "quick" else 5
    for n in range(1, nmax + 1):
        for ws in (False, True):
            out.append(dict(name="closed_form_n%d_%s" % (n, "scale" if ws else "rigid"), kind="closed", n=n, with_scale=ws))
    out.append(dict(name="translation_optimal", kind="topt", n=3))
    for n in (2, 3):
        out.append(dict(name="coincident_points_refused_n%d" % n, kind="degenerate", n=n, how="coincident"))
        out.append(dict(name="points_on_axis_refused_n%d" % n, kind="degenerate", n=n, how="axis"))
    out.append(dict(name="unequal_shapes_refused", kind="shapes"))
    out.append(dict(name="permutation_equivariance_n3", kind="perm", n=3))
    return out


def run_case(case, col):
    k = case["kind"]
    if k == "lemmas":
        from evoverif import lemmas
        return lemmas.lemma_case(col)
    globals()["run_" + k](case, col)


def G():
    return common.S("evo.core.geometry")


def pts(prefix, n):
    return [[z3.Real("%s%d_%s" % (prefix, i, c)) for i in range(n)] for c in "xyz"]      # 3 x n


def arr(P):
    return symnp.array([[SymReal(v) for v in row] for row in P])


def zmean(P):
    n = len(P[0])
    return [sum(row) / n for row in P]


def zcov(X, Y):
    n = len(X[0])
    mx, my = zmean(X), zmean(Y)
    return [[sum((Y[a][i] - my[a]) * (X[b][i] - mx[b]) for i in range(n)) / n for b in range(3)] for a in range(3)]


def zsigma(X):
    n = len(X[0])
    mx = zmean(X)
    return sum((X[a][i] - mx[a]) * (X[a][i] - mx[a]) for a in range(3) for i in range(n)) / n


def zz(x):
    return x if z3.is_expr(x) else sc.q_of(Fraction(x))


BASE_POINTS = {1: [(0, 0, 0)], 2: [(1, 0, 0), (-1, 0, 0)], 3: [(2, 0, 0), (-1, 1, 0), (-1, -1, 0)],
               4: [(1, 1, 1), (1, -1, -1), (-1, 1, -1), (-1, -1, 1)],
               5: [(1, 1, 1), (1, -1, -1), (-1, 1, -1), (-1, -1, 1), (0, 0, 0)]}


def svd_pins(X, Y=None):
    """constructive witnesses for paths through the SVD stub: source points with a diagonal Gram matrix,
    target = diag(a, b, c) * source (+ offset), hence a diagonal covariance whose SVD has signed-identity
    factors: U = su*R(qu), V = sv*R(qv) with q = (1,0,0,0) for sign +1 and (0,0,0,1) for sign -1
    (-R(0,0,0,1) = diag(1,1,-1)); c < 0 (mirrored data) when su*sv = -1 and the Gram matrix has full rank."""
    def mk(ctx):
        out = []
        n = len(X[0]) if X and X[0] else 0
        calls = ctx.memo.get("svd_calls", [])
        su = calls[0]["su"] if calls else 1
        sv = calls[0]["sv"] if calls else 1
        for (a, b, c, off) in ((3, 2, 1, (0, 0, 0)), (5, 3, 2, (1, -2, 3))):
            eqs = []
            if n in BASE_POINTS:
                if su * sv == -1:
                    c = -c
                for i, pt in enumerate(BASE_POINTS[n]):
                    for k in range(3):
                        eqs.append(X[k][i] == sc.q_of(Fraction(pt[k] + off[k])))
                        if Y is not None:
                            eqs.append(Y[k][i] == sc.q_of(Fraction((a, b, c)[k] * pt[k] - off[k])))
            for call in calls:
                for q, sg in ((call["qu"], call["su"]), (call["qv"], call["sv"])):
                    vals = (1, 0, 0, 0) if sg == 1 else (0, 0, 0, 1)
                    eqs += [v == sc.q_of(Fraction(x)) for v, x in zip(q, vals)]
            out.append(eqs)
        return out
    return mk


def poison_scale_path_is_infeasible(col, ctx, call, inputs, replay, descr):
    """A path on which the variance sigma_x is zero *and* the rank test passed is visited only because
    branch feasibility is decided without the heavy SVD invariants.  Show it infeasible by a chain:
    (1) on this path every covariance entry vanishes (the path condition says every x_i equals the mean);
    (2) contract instance sum d^2 = |A|_F^2, d0>=d1>=d2>=0 and the path's d1 > eps are contradictory."""
    A = call["A"]
    ok = runner.check_obligations(col, ctx, {"covariance_vanishes_when_all_source_points_coincide":
                                             z3.And([toz(A[a, b]) == 0 for a in range(3) for b in range(3)])},
                                  inputs, replay, descr=descr, timeout_ms=60000)
    if not ok:
        return False
    a = [z3.Real("cov_%d" % k) for k in range(9)]
    d = [z3.Real("sing_%d" % k) for k in range(3)]
    hyp = [x == 0 for x in a] + [sum(x * x for x in d) == sum(x * x for x in a), d[0] >= d[1], d[1] >= d[2], d[2] >= 0,
                                 d[1] > sc.q_of(Fraction(2) ** -52)]
    return runner.check_lemma(col, ctx, "zero_variance_path_contradicts_rank_test", hyp, z3.BoolVal(False), descr=descr)


def run_closed(case, col):
    n, ws = case["n"], case["with_scale"]
    X, Y = pts("x", n), pts("y", n)
    inputs = {str(v): v for row in X + Y for v in row}
    state = {}

    def fn():
        sc.ctx().memo.pop("svd_calls", None)
        return G().umeyama_alignment(arr(X), arr(Y), ws)

    def replay(vals):
        return replay_umeyama(vals, X, Y, ws)

    def on_ok(pr):
        r, t, c = pr.out
        ctx = pr.ctx
        calls = ctx.memo.get("svd_calls", [])
        g = {"svd_called_once": z3.BoolVal(len(calls) == 1)}
        if len(calls) == 1 and c is sc.POISON:
            poison_scale_path_is_infeasible(col, ctx, calls[0], inputs, replay, "umeyama n=%d (zero variance path)" % n)
            return
        if len(calls) != 1:
            runner.check_obligations(col, ctx, g, inputs, replay, descr="umeyama n=%d" % n)
            return
        call = calls[0]
        A = call["A"]
        C = zcov(X, Y)
        g["svd_argument_is_the_covariance_eq38"] = z3.And([toz(A[a, b]) == C[a][b] for a in range(3) for b in range(3)])
        Uz = [[toz(x) for x in row] for row in rnp.asarray(symrot.rot_array(call["qu"], call["su"]))]
        Vz = [[toz(x) for x in row] for row in rnp.asarray(symrot.rot_array(call["qv"], call["sv"]))]
        sgn = call["su"] * call["sv"]
        S = [[1, 0, 0], [0, 1, 0], [0, 0, sgn]]
        Rspec = zmat_mul(zmat_mul(Uz, [[zz(x) for x in row] for row in S]), Vz)
        rz = [[toz(r[a, b]) for b in range(3)] for a in range(3)]
        g["rotation_is_U_S_V_eq40_43"] = z3.And([rz[a][b] == Rspec[a][b] for a in range(3) for b in range(3)])
        RtR = zmat_mul(zT(rz), rz)
        g["rotation_is_orthonormal"] = z3.And([RtR[a][b] == (1 if a == b else 0) for a in range(3) for b in range(3)])
        det = (rz[0][0] * (rz[1][1] * rz[2][2] - rz[1][2] * rz[2][1]) - rz[0][1] * (rz[1][0] * rz[2][2] - rz[1][2] * rz[2][0])
               + rz[0][2] * (rz[1][0] * rz[2][1] - rz[1][1] * rz[2][0]))
        g["determinant_is_plus_one_never_a_reflection"] = det == 1
        d = call["d"]
        if ws:
            g["scale_is_trace_DS_over_variance_eq42"] = toz(c) * zsigma(X) == d[0] + d[1] + sgn * d[2]
            g["scale_is_positive"] = toz(c) > 0
        else:
            g["scale_is_exactly_one"] = z3.BoolVal((not isinstance(c, SymReal)) and c == 1)
        mx, my = zmean(X), zmean(Y)
        rm = zmat_vec(rz, mx)
        g["translation_is_mean_y_minus_c_r_mean_x_eq41"] = z3.And([toz(t[a]) == my[a] - toz(c) * rm[a] for a in range(3)])
        g["rank_at_least_two_on_return"] = d[1] > sc.q_of(Fraction(2) ** -52)
        runner.check_obligations(col, ctx, g, inputs, replay, descr="umeyama n=%d scale=%s su=%d sv=%d" % (n, ws, call["su"], call["sv"]),
                                 timeout_ms=60000)

    def on_exc(pr):
        ctx = pr.ctx
        if pr.status != "exc:GeometryException":
            col.d["harness_errors"].append(dict(ob="path", why="unexpected %s: %s" % (pr.status, pr.exc)))
            return
        calls = ctx.memo.get("svd_calls", [])
        # refusal only for rank < 2 (second singular value not above eps)
        g = {"refused_only_when_rank_below_two": (calls[0]["d"][1] <= sc.q_of(Fraction(2) ** -52)) if calls else z3.BoolVal(False)}
        runner.check_obligations(col, ctx, g, inputs, replay, descr="umeyama refusal n=%d" % n)

    runner.explore_case(col, fn, [], on_ok, on_exc, timeout_ms=60000, pins=svd_pins(X, Y))


def replay_umeyama(vals, X, Y, ws):
    """the witness itself, then rigidly moved copies of it: which of the contract-conforming SVD outcomes
    LAPACK picks for a rank-deficient covariance depends on the orientation of the data, so a
    counterexample of the model is searched for in the orbit of the witness (every member is a concrete
    input; only a concrete reproduction on the real code counts)"""
    x0 = rnp.array([[float(vals[str(v)]) for v in row] for row in X])
    y0 = rnp.array([[float(vals[str(v)]) for v in row] for row in Y])
    res = _replay_umeyama_xy(x0, y0, ws)
    if res[0]:
        return res
    rng = rnp.random.RandomState(12345)
    tr = common.R("evo.core.transformations")
    for k in range(12):
        A = tr.random_rotation_matrix(rng.rand(3))[:3, :3]
        B = tr.random_rotation_matrix(rng.rand(3))[:3, :3]
        r2 = _replay_umeyama_xy(A.dot(x0) + rng.randn(3, 1), B.dot(y0) + rng.randn(3, 1), ws)
        if r2[0]:
            return True, "rigidly moved copy #%d of the witness (x -> A x + a, y -> B y + b): %s" % (k, r2[1])
    return res


def _replay_umeyama_xy(x, y, ws):
    Gr = common.R("evo.core.geometry")
    n = x.shape[1]
    mx, my = x.mean(axis=1), y.mean(axis=1)
    cov = (y - my[:, None]).dot((x - mx[:, None]).T) / n
    u, d, v = rnp.linalg.svd(cov)
    scale = max(1.0, float(rnp.abs(cov).max()))
    bad = []
    try:
        r, t, c = Gr.umeyama_alignment(x, y, ws)
    except Gr.GeometryException:
        if d[1] > 1e-9 * scale:
            bad.append("refused although the covariance has rank >= 2 (d=%r)" % (d,))
        return bool(bad), "; ".join(bad) or "refused (rank < 2)"
    if d[1] <= rnp.finfo(float).eps:
        bad.append("degenerate input (d=%r) not refused" % (d,))
    if not rnp.allclose(r.T.dot(r), rnp.eye(3), atol=1e-9) or abs(rnp.linalg.det(r) - 1) > 1e-9:
        bad.append("r is not a proper rotation: det=%r" % (rnp.linalg.det(r),))
    if d[2] > 1e-9 * scale and d[1] - d[2] > 1e-9 * scale and d[0] - d[1] > 1e-9 * scale:
        S = rnp.eye(3)
        if rnp.linalg.det(u) * rnp.linalg.det(v) < 0:
            S[2, 2] = -1
        rs = u.dot(S).dot(v)
        if not rnp.allclose(r, rs, atol=1e-8):
            bad.append("r differs from U S V")
        sig = ((x - mx[:, None]) ** 2).sum() / n
        cs = (d[0] + d[1] + S[2, 2] * d[2]) / sig if ws else 1.0
        if abs(c - cs) > 1e-8 * max(1.0, abs(cs)):
            bad.append("scale %r differs from closed form %r" % (c, cs))
    if not ws and c != 1.0:
        bad.append("scale %r without scale estimation" % (c,))
    if ws and not c > 0:
        bad.append("non-positive scale %r" % (c,))
    if not rnp.allclose(t, my - c * r.dot(mx), atol=1e-8 * max(1.0, float(rnp.abs(my).max()), float(rnp.abs(mx).max()) * abs(c))):
        bad.append("translation differs from mean_y - c r mean_x")
    return bool(bad), "; ".join(bad) or "ok"


def run_topt(case, col):
    """for the returned r, c: the returned t minimises the residual over all translations
    (residual(t') - residual(t) = n |t' - t|^2 when t = mean_y - c r mean_x) -- polynomial identity"""
    n = case["n"]
    X, Y = pts("x", n), pts("y", n)
    inputs = {str(v): v for row in X + Y for v in row}
    tp = [z3.Real("tprime_%d" % a) for a in range(3)]

    def fn():
        return G().umeyama_alignment(arr(X), arr(Y), True)

    def on_ok(pr):
        r, t, c = pr.out
        if c is sc.POISON:
            return
        rz = [[toz(r[a, b]) for b in range(3)] for a in range(3)]
        tz, cz = [toz(v) for v in t], toz(c)

        def resid(tt):
            tot = 0
            for i in range(n):
                rx = zmat_vec(rz, [X[a][i] for a in range(3)])
                tot = tot + sum((Y[a][i] - (cz * rx[a] + tt[a])) * (Y[a][i] - (cz * rx[a] + tt[a])) for a in range(3))
            return tot
        g = {"translation_minimises_the_residual_for_the_returned_r_c":
             resid(tp) - resid(tz) == n * sum((tp[a] - tz[a]) * (tp[a] - tz[a]) for a in range(3))}
        runner.check_obligations(col, pr.ctx, g, inputs, lambda v: replay_umeyama(v, X, Y, True), descr="translation optimality",
                                 timeout_ms=120000)

    runner.explore_case(col, fn, [], on_ok, lambda pr: None, timeout_ms=60000, pins=svd_pins(X, Y))


def run_degenerate(case, col):
    n, how = case["n"], case["how"]
    X, Y = pts("x", n), pts("y", n)
    inputs = {str(v): v for row in X + Y for v in row}
    if how == "coincident":
        # all source points coincide (hence zero covariance)
        assume = [X[a][i] == X[a][0] for a in range(3) for i in range(1, n)]
    else:
        # all points of both sets on the x axis
        assume = [P[a][i] == 0 for P in (X, Y) for a in (1, 2) for i in range(n)]

    def fn():
        return G().umeyama_alignment(arr(X), arr(Y), False)

    def replay(vals):
        return replay_umeyama(vals, X, Y, False)

    def on_ok(pr):
        runner.check_obligations(col, pr.ctx, {"degenerate_%s_refused" % how: z3.BoolVal(False)}, inputs, replay,
                                 descr="degenerate %s returned a result" % how, timeout_ms=60000)

    def on_exc(pr):
        runner.check_obligations(col, pr.ctx, {"degenerate_%s_refused" % how: z3.BoolVal(pr.status == "exc:GeometryException")},
                                 inputs, replay, descr="degenerate")
    runner.explore_case(col, fn, assume, on_ok, on_exc, timeout_ms=60000, pins=None)


def run_shapes(case, col):
    X, Y = pts("x", 2), pts("y", 3)
    inputs = {str(v): v for row in X + Y for v in row}

    def fn():
        return G().umeyama_alignment(arr(X), arr(Y), False)

    def on_ok(pr):
        runner.check_obligations(col, pr.ctx, dict(unequal_sizes_refused=z3.BoolVal(False)), inputs, lambda v: (True, "accepted"))

    def on_exc(pr):
        runner.check_obligations(col, pr.ctx, dict(unequal_sizes_refused=z3.BoolVal(pr.status == "exc:GeometryException")), inputs,
                                 lambda v: (True, "wrong exception"))
    runner.explore_case(col, fn, [], on_ok, on_exc)


def run_perm(case, col):
    """permuting the points leaves means, variance and covariance (the SVD argument) unchanged"""
    n = case["n"]
    X, Y = pts("x", n), pts("y", n)
    inputs = {str(v): v for row in X + Y for v in row}
    perm = [1, 2, 0]

    class _Stop(Exception):
        pass

    def fn():
        got = []
        orig = stubs.svd

        def probe(A):
            got.append(dict(A=A.copy()))
            raise _Stop()
        stubs.svd = probe
        try:
            for P, Q in ((X, Y), ([[row[k] for k in perm] for row in X], [[row[k] for k in perm] for row in Y])):
                try:
                    G().umeyama_alignment(arr(P), arr(Q), True)
                except _Stop:
                    pass
        finally:
            stubs.svd = orig
        return got[:1], got[1:]

    def on_ok(pr):
        a, b = pr.out
        ok = len(a) == 1 and len(b) == 1
        g = {"svd_reached_in_both_runs": z3.BoolVal(ok)}
        if ok:
            g["covariance_invariant_under_point_permutation"] = z3.And(
                [toz(a[0]["A"][i, j]) == toz(b[0]["A"][i, j]) for i in range(3) for j in range(3)])
        runner.check_obligations(col, pr.ctx, g, inputs, lambda v: (False, "n/a"), descr="permutation")
    runner.explore_case(col, fn, [], on_ok, None, timeout_ms=60000, max_paths=400)


def replay_file(rec):
    return False, "re-run ./check C03"
