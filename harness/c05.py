"""C05 -- time association (evo.core.sync) decided by bounded symbolic execution.

Real functions executed: sync.matching_time_indices, sync.associate_trajectories,
PoseTrajectory3D.reduce_to_ids (all from the current /repo tree).  Linear real
arithmetic: exact also at the boundary |dt| == max_diff and at ties.
"""
import itertools
from fractions import Fraction

import numpy as rnp
import z3

from evoverif import runner, symcore as sc, symnp
from evoverif.symcore import SymReal
from . import common
from .common import SymTraj, zabs

PROPERTY = "C05"
FUNCTIONS = ["evo.core.sync.matching_time_indices", "evo.core.sync.associate_trajectories",
             "evo.core.trajectory.PoseTrajectory3D.reduce_to_ids", "PoseTrajectory3D.__init__"]
BOUNDS = {"quick": "all length pairs (n1,n2) with 1<=n1,n2<=3 plus (3,4),(4,3); symbolic stamps, max_diff>=0, offset",
          "thorough": "all length pairs with 1<=n1,n2<=4 plus (4,5),(5,4)"}
STUBS = []
ASSUMPTIONS = ["input stamps strictly increasing (valid trajectories)", "max_diff >= 0"]
OUTSIDE = ["lengths beyond the bound", "float rounding of stamps + offset (real mode)"]
CASE_TIMEOUT_S = {"quick": 600, "thorough": 3000}


def worker_init():
    common.ensure_loaded()


def cases(tier, seed):
    if tier == "quick":
        pairs = [(a, b) for a in range(1, 4) for b in range(1, 4)] + [(3, 4), (4, 3)]
    else:
        pairs = [(a, b) for a in range(1, 5) for b in range(1, 5)] + [(4, 5), (5, 4)]
    out = [dict(name="assoc_%dx%d" % (a, b), kind="assoc", n1=a, n2=b) for a, b in pairs]
    out += [dict(name="match_%dx%d" % (a, b), kind="match", n1=a, n2=b)
            for a, b in ([(2, 3), (3, 3)] if tier == "quick" else [(2, 3), (3, 3), (3, 4), (4, 4)])]
    out.append(dict(name="wrong_type", kind="wrongtype", n1=2, n2=2))
    return out


# --------------------------------------------------------------------------
# specification, written over z3 terms (independent of evo)
# --------------------------------------------------------------------------
def dist(t1, t2, off, i, j):
    return zabs(t1[i] - (t2[j] + off))


def spec_pairs(t1, t2, off, md, pairs_terms, n1, n2):
    """pairs_terms: list of K tuples (stamp1, pos1[3], quat1[4], stamp2, pos2, quat2) of
    *output* terms.  Returns the conjunction of the property's clauses."""
    raise NotImplementedError


def run_case(case, col):
    kind = case["kind"]
    if kind == "wrongtype":
        return run_wrongtype(case, col)
    n1, n2 = case["n1"], case["n2"]
    A, B = SymTraj("a", n1, unit_quat=False), SymTraj("b", n2, unit_quat=False)
    md, off = z3.Real("max_diff"), z3.Real("offset")
    assume = A.assumptions() + B.assumptions() + [md >= 0]
    inputs = dict(A.inputs(), **B.inputs())
    inputs.update(max_diff=md, offset=off)
    sync = common.S("evo.core.sync")
    known = runner.load_known(PROPERTY)

    if kind == "match":
        return run_match(case, col, A, B, md, off, assume, inputs, sync)

    state = {}

    def fn():
        ta, tb = A.build("quat"), B.build("quat")
        state["ta"], state["tb"] = ta, tb
        state["snap"] = [x.copy() for x in (ta.positions_xyz, ta.orientations_quat_wxyz, ta.timestamps,
                                            tb.positions_xyz, tb.orientations_quat_wxyz, tb.timestamps)]
        return sync.associate_trajectories(ta, tb, SymReal(md), SymReal(off))

    def replay(vals):
        return replay_assoc(vals, A, B)

    t1, t2 = A.t, B.t

    def d(i, j):
        return dist(t1, t2, off, i, j)

    # which side drives the search per the property: the one with fewer poses
    def nearest_1(i, j):          # j is a nearest counterpart (in B) of pose i of A
        return z3.And([d(i, j) <= d(i, jj) for jj in range(n2)])

    def nearest_2(i, j):          # i is a nearest counterpart (in A) of pose j of B
        return z3.And([d(i, j) <= d(ii, j) for ii in range(n1)])

    def strictly_nearest_1(i, j):
        return z3.And([d(i, j) < d(i, jj) for jj in range(n2) if jj != j])

    def strictly_nearest_2(i, j):
        return z3.And([d(i, j) < d(ii, j) for ii in range(n1) if ii != i])

    def must_pair_A(i, j):
        """A is the shorter one: pose i of A must be paired with j"""
        others = [z3.Not(nearest_1(ii, j)) for ii in range(n1) if ii != i]
        return z3.And([strictly_nearest_1(i, j), d(i, j) <= md] + others)

    def must_pair_B(i, j):
        others = [z3.Not(nearest_2(i, jj)) for jj in range(n2) if jj != j]
        return z3.And([strictly_nearest_2(i, j), d(i, j) <= md] + others)

    def on_ok(pr):
        o1, o2 = pr.out
        ctx = pr.ctx
        K = len(o1.timestamps)
        col.sample(dict(n1=n1, n2=n2, pairs=K))
        shapes_ok = (len(o2.timestamps) == K and o1.positions_xyz.shape == (K, 3)
                     and o2.positions_xyz.shape == (K, 3) and o1.orientations_quat_wxyz.shape == (K, 4)
                     and o2.orientations_quat_wxyz.shape == (K, 4) and o1.num_poses == K and o2.num_poses == K)
        clauses = {}
        clauses["equal_length_outputs"] = z3.BoolVal(bool(shapes_ok))
        clauses["at_least_one_pair"] = z3.BoolVal(K >= 1)
        if shapes_ok:
            # k-th output poses are copies of input poses (i_k, j_k): express with selector formulas
            sel = []
            for k in range(K):
                alts = []
                for i in range(n1):
                    for j in range(n2):
                        eq = [sc.toz(o1.timestamps[k]) == t1[i], sc.toz(o2.timestamps[k]) == t2[j]]
                        eq += [sc.toz(o1.positions_xyz[k][c]) == A.p[i][c] for c in range(3)]
                        eq += [sc.toz(o2.positions_xyz[k][c]) == B.p[j][c] for c in range(3)]
                        eq += [sc.toz(o1.orientations_quat_wxyz[k][c]) == A.q[i][c] for c in range(4)]
                        eq += [sc.toz(o2.orientations_quat_wxyz[k][c]) == B.q[j][c] for c in range(4)]
                        within = d(i, j) <= md
                        if n1 < n2:
                            nearest = nearest_1(i, j)
                        elif n2 < n1:
                            nearest = nearest_2(i, j)
                        else:
                            nearest = z3.Or(nearest_1(i, j), nearest_2(i, j))
                        alts.append((i, j, z3.And(eq), within, nearest))
                sel.append(alts)
            clauses["copies_of_input_poses"] = z3.And([z3.Or([a[2] for a in alts]) for alts in sel])
            clauses["within_max_diff"] = z3.And([z3.Or([z3.And(a[2], a[3]) for a in alts]) for alts in sel])
            clauses["pairs_are_nearest"] = z3.And([z3.Or([z3.And(a[2], a[4]) for a in alts]) for alts in sel])
            inc = []
            for k in range(K - 1):
                inc.append(sc.toz(o1.timestamps[k]) < sc.toz(o1.timestamps[k + 1]))
                inc.append(sc.toz(o2.timestamps[k]) < sc.toz(o2.timestamps[k + 1]))
            # strictly increasing stamps of both outputs <=> time order and no pose used twice
            clauses["increasing_and_no_pose_twice"] = z3.And(inc) if inc else z3.BoolVal(True)
            # completeness: every must-pair (i,j) appears
            comp = []
            for i in range(n1):
                for j in range(n2):
                    present = z3.Or([z3.And(sc.toz(o1.timestamps[k]) == t1[i], sc.toz(o2.timestamps[k]) == t2[j])
                                     for k in range(K)]) if K else z3.BoolVal(False)
                    if n1 < n2:
                        comp.append(z3.Implies(must_pair_A(i, j), present))
                    elif n2 < n1:
                        comp.append(z3.Implies(must_pair_B(i, j), present))
                    else:
                        comp.append(z3.Implies(z3.And(must_pair_A(i, j), must_pair_B(i, j)), present))
            clauses["every_unambiguous_nearest_pair_present"] = z3.And(comp)
        # inputs not modified
        ta, tb = state["ta"], state["tb"]
        now = [ta.positions_xyz, ta.orientations_quat_wxyz, ta.timestamps,
               tb.positions_xyz, tb.orientations_quat_wxyz, tb.timestamps]
        clauses["inputs_unmodified"] = z3.BoolVal(all(common.same_terms(x, y) for x, y in zip(state["snap"], now)))
        runner.check_obligations(col, ctx, clauses, inputs, replay, descr="%dx%d K=%d" % (n1, n2, K))

    def on_exc(pr):
        if pr.status != "exc:SyncException":
            col.d["harness_errors"].append(dict(ob="path", why="unexpected %s: %s" % (pr.status, pr.exc)))
            return
        # refusal is only right if nothing had to be paired
        comp = []
        for i in range(n1):
            for j in range(n2):
                if n1 < n2:
                    comp.append(must_pair_A(i, j))
                elif n2 < n1:
                    comp.append(must_pair_B(i, j))
                else:
                    comp.append(z3.And(must_pair_A(i, j), must_pair_B(i, j)))
        runner.check_obligation(col, pr.ctx, "sync_error_only_if_nothing_matches", z3.Not(z3.Or(comp)),
                                inputs, replay, descr="%dx%d exception path" % (n1, n2))

    runner.explore_case(col, fn, assume, on_ok, on_exc, max_paths=6000)


def run_match(case, col, A, B, md, off, assume, inputs, sync):
    """matching_time_indices called directly (either argument may be longer)"""
    n1, n2 = case["n1"], case["n2"]
    t1, t2 = A.t, B.t
    state = {}

    def fn():
        s1 = symnp.array([SymReal(x) for x in t1])
        s2 = symnp.array([SymReal(x) for x in t2])
        state["s"] = (s1, s2, s1.copy(), s2.copy())
        return sync.matching_time_indices(s1, s2, SymReal(md), SymReal(off))

    def replay(vals):
        s1 = rnp.array([float(vals[str(x)]) for x in t1])
        s2 = rnp.array([float(vals[str(x)]) for x in t2])
        c1, c2 = s1.copy(), s2.copy()
        i1, i2 = common.R("evo.core.sync").matching_time_indices(s1, s2, float(vals["max_diff"]), float(vals["offset"]))
        f1 = [Fraction(x) for x in c1]
        f2 = [Fraction(x) for x in c2]
        o, m = Fraction(float(vals["offset"])), Fraction(float(vals["max_diff"]))
        bad = []
        if len(i1) != len(i2):
            bad.append("unequal index lists")
        if len(set(i2)) != len(i2) or len(set(i1)) != len(i1):
            bad.append("index used twice: %r %r" % (i1, i2))
        for a, b in zip(i1, i2):
            dd = abs(f1[a] - (f2[b] + o))
            if dd > m and not common.band(float(dd - m)):
                bad.append("pair (%d,%d) beyond max_diff" % (a, b))
            if any(abs(f1[a] - (f2[x] + o)) < dd and not common.band(float(dd - abs(f1[a] - (f2[x] + o))))
                   for x in range(len(f2))):
                bad.append("pair (%d,%d) not nearest" % (a, b))
        if not (rnp.array_equal(s1, c1) and rnp.array_equal(s2, c2)):
            bad.append("input stamps modified")
        return bool(bad), "; ".join(bad) or "ok"

    def d(i, j):
        return zabs(t1[i] - (t2[j] + off))

    def on_ok(pr):
        i1, i2 = pr.out
        s1, s2, c1, c2 = state["s"]
        g = {}
        g["equal_length_index_lists"] = z3.BoolVal(len(i1) == len(i2))
        g["no_index_twice"] = z3.BoolVal(len(set(i1)) == len(i1) and len(set(i2)) == len(i2))
        g["indices_in_range_and_increasing"] = z3.BoolVal(
            all(0 <= a < n1 for a in i1) and all(0 <= b < n2 for b in i2) and list(i1) == sorted(i1))
        g["within_max_diff"] = z3.And([d(a, b) <= md for a, b in zip(i1, i2)]) if i1 else z3.BoolVal(True)
        g["nearest"] = z3.And([d(a, b) <= d(a, x) for a, b in zip(i1, i2) for x in range(n2)]) if i1 else z3.BoolVal(True)
        comp = []
        for i in range(n1):
            for j in range(n2):
                must = z3.And([d(i, j) < d(i, x) for x in range(n2) if x != j] + [d(i, j) <= md] +
                              [z3.Not(z3.And([d(ii, j) <= d(ii, x) for x in range(n2)])) for ii in range(n1) if ii != i])
                comp.append(z3.Implies(must, z3.BoolVal((i, j) in list(zip(i1, i2)))))
        g["every_unambiguous_nearest_pair_present"] = z3.And(comp)
        g["inputs_unmodified"] = z3.BoolVal(common.same_terms(s1, c1) and common.same_terms(s2, c2))
        runner.check_obligations(col, pr.ctx, g, inputs, replay, descr="match %dx%d" % (n1, n2))

    runner.explore_case(col, fn, assume, on_ok, None, max_paths=6000)


def run_wrongtype(case, col):
    """non-timestamped paths are refused (concrete structure, no solver needed
    beyond the reachability witness)"""
    A, B = SymTraj("a", 2, stamps=False, unit_quat=False), SymTraj("b", 2, unit_quat=False)
    sync = common.S("evo.core.sync")

    def fn():
        return sync.associate_trajectories(A.build("quat"), B.build("quat"))

    def on_ok(pr):
        runner.check_obligation(col, pr.ctx, "path_without_stamps_refused", z3.BoolVal(False), B.inputs(),
                                lambda v: (True, "associate_trajectories accepted a PosePath3D"))

    def on_exc(pr):
        runner.check_obligation(col, pr.ctx, "path_without_stamps_refused",
                                z3.BoolVal(pr.status == "exc:SyncException"), B.inputs(),
                                lambda v: (True, "wrong exception"))
    runner.explore_case(col, fn, B.assumptions(), on_ok, on_exc)


# --------------------------------------------------------------------------
# replay: real evo on real numpy, independent concrete oracle (exact rationals)
# --------------------------------------------------------------------------
def replay_assoc(vals, A, B):
    sync = common.R("evo.core.sync")
    ta = A.concrete(vals, normalise=False)
    tb = B.concrete(vals, normalise=False)
    snap = [x.copy() for x in (ta.positions_xyz, ta.orientations_quat_wxyz, ta.timestamps,
                               tb.positions_xyz, tb.orientations_quat_wxyz, tb.timestamps)]
    md, off = float(vals["max_diff"]), float(vals["offset"])
    f1 = [Fraction(x) for x in snap[2]]
    f2 = [Fraction(x) for x in snap[5]]
    o, m = Fraction(off), Fraction(md)
    n1, n2 = len(f1), len(f2)

    def d(i, j):
        return abs(f1[i] - (f2[j] + o))

    # The don't-care band exists because binary64 rounds the offset addition and the differences.  When every
    # operation evo can perform on this witness is exact (checked here in rational arithmetic for both orders of
    # applying the offset), the real code decides the boundary cases exactly and so does this oracle: a pair at
    # exactly max_diff, or max_diff == 0 with coinciding stamps, is then demanded like any other.
    def _exact():
        try:
            for j in range(n2):
                if Fraction(float(f2[j]) + off) != f2[j] + o:
                    return False
            for i in range(n1):
                if Fraction(float(f1[i]) - off) != f1[i] - o:
                    return False
                for j in range(n2):
                    if Fraction(abs((float(f2[j]) + off) - float(f1[i]))) != d(i, j):
                        return False
                    if Fraction(abs((float(f1[i]) - off) - float(f2[j]))) != d(i, j):
                        return False
            return True
        except (OverflowError, ValueError):
            return False
    exact = _exact()

    class common_:        # band() of this oracle: empty when the arithmetic is exact
        @staticmethod
        def band(x, scale=1.0):
            return False if exact else common.band(x, scale)

    def must(i, j, a_short):
        if a_short:
            return (all(d(i, j) < d(i, x) and not common_.band(float(d(i, x) - d(i, j))) for x in range(n2) if x != j)
                    and d(i, j) <= m and not common_.band(float(m - d(i, j)))
                    and all(any(d(ii, x) < d(ii, j) and not common_.band(float(d(ii, j) - d(ii, x))) for x in range(n2))
                            for ii in range(n1) if ii != i))
        return (all(d(i, j) < d(x, j) and not common_.band(float(d(x, j) - d(i, j))) for x in range(n1) if x != i)
                and d(i, j) <= m and not common_.band(float(m - d(i, j)))
                and all(any(d(x, jj) < d(i, jj) and not common_.band(float(d(i, jj) - d(x, jj))) for x in range(n1))
                        for jj in range(n2) if jj != j))

    musts = []
    for i in range(n1):
        for j in range(n2):
            if n1 < n2:
                mm = must(i, j, True)
            elif n2 < n1:
                mm = must(i, j, False)
            else:
                mm = must(i, j, True) and must(i, j, False)
            if mm:
                musts.append((i, j))
    bad = []
    try:
        o1, o2 = sync.associate_trajectories(ta, tb, md, off)
    except sync.SyncException as e:
        if musts:
            bad.append("SyncException although pairs %r had to be produced" % (musts,))
        o1 = o2 = None
    if o1 is not None:
        K = o1.num_poses
        if not (o2.num_poses == K and len(o1.timestamps) == K and len(o2.timestamps) == K):
            bad.append("outputs of unequal length")
        elif K == 0:
            bad.append("empty result without SyncException")
        else:
            pairs = []
            for k in range(K):
                ii = [i for i in range(n1) if snap[2][i] == o1.timestamps[k]
                      and rnp.array_equal(snap[0][i], o1.positions_xyz[k])
                      and rnp.array_equal(snap[1][i], o1.orientations_quat_wxyz[k])]
                jj = [j for j in range(n2) if snap[5][j] == o2.timestamps[k]
                      and rnp.array_equal(snap[3][j], o2.positions_xyz[k])
                      and rnp.array_equal(snap[4][j], o2.orientations_quat_wxyz[k])]
                if not ii or not jj:
                    bad.append("output pose %d is not an unmodified copy of an input pose" % k)
                    continue
                i, j = ii[0], jj[0]
                pairs.append((i, j))
                if d(i, j) > m and not common_.band(float(d(i, j) - m)):
                    bad.append("pair (%d,%d): |dt|=%s > max_diff" % (i, j, float(d(i, j))))
                if n1 < n2:
                    nn = [d(i, x) for x in range(n2)]
                elif n2 < n1:
                    nn = [d(x, j) for x in range(n1)]
                else:
                    nn = None
                if nn is not None and any(x < d(i, j) and not common_.band(float(d(i, j) - x)) for x in nn):
                    bad.append("pair (%d,%d) is not a nearest-counterpart pair" % (i, j))
                if nn is None:
                    na = any(x < d(i, j) and not common_.band(float(d(i, j) - x)) for x in [d(i, x) for x in range(n2)])
                    nb = any(x < d(i, j) and not common_.band(float(d(i, j) - x)) for x in [d(x, j) for x in range(n1)])
                    if na and nb:
                        bad.append("pair (%d,%d) is not a nearest-counterpart pair" % (i, j))
            if len({p[0] for p in pairs}) != len(pairs) or len({p[1] for p in pairs}) != len(pairs):
                bad.append("a pose is used more than once: pairs %r" % (pairs,))
            if any(not (o1.timestamps[k] < o1.timestamps[k + 1] and o2.timestamps[k] < o2.timestamps[k + 1])
                   for k in range(K - 1)):
                bad.append("output not in increasing time order")
            for p in musts:
                if p not in pairs:
                    bad.append("unambiguous nearest pair %r missing" % (p,))
    now = [ta.positions_xyz, ta.orientations_quat_wxyz, ta.timestamps,
           tb.positions_xyz, tb.orientations_quat_wxyz, tb.timestamps]
    if not all(rnp.array_equal(x, y) for x, y in zip(snap, now)):
        bad.append("an input trajectory was modified")
    return bool(bad), "; ".join(bad) or "ok"


REPLAY_DIRECT = True


def replay_file(rec):
    A = SymTraj("a", sum(1 for k in rec["witness"] if k.startswith("a_t")), unit_quat=False)
    B = SymTraj("b", sum(1 for k in rec["witness"] if k.startswith("b_t")), unit_quat=False)
    return replay_assoc(rec["witness"], A, B)
