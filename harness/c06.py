"""C06 -- writing and re-reading any supported format is lossless.

Real functions executed: file_interface.write_tum_trajectory_file / read_tum_trajectory_file,
write_kitti_poses_file / read_kitti_poses_file, save_res_file / load_res_file, csv_read_matrix,
pandas_bridge.trajectory_to_df / df_to_trajectory / result_to_df, write_bag_trajectory /
read_bag_trajectory (recording writer, replaying reader).  numpy.savetxt / save / load and json
are text-cell stubs: the solver sees the *precision evo asks for* (a format with < 17 significant
digits makes the re-read value a different real).
"""
import io
import os
import shutil
import tempfile
from fractions import Fraction

import numpy as rnp
import z3

from evoverif import runner, symcore as sc, symnp, textcells, loader
from evoverif.symcore import SymReal, toz
from . import common
from .common import SymTraj

PROPERTY = "C06"
FUNCTIONS = ["file_interface.write_tum_trajectory_file", "read_tum_trajectory_file", "write_kitti_poses_file", "read_kitti_poses_file",
             "csv_read_matrix", "has_utf8_bom", "save_res_file", "load_res_file", "pandas_bridge.trajectory_to_df", "df_to_trajectory",
             "result_to_df", "write_bag_trajectory", "read_bag_trajectory"]
BOUNDS = {"quick": "N <= 3 poses; 1..2 trajectories + 3 arrays + statistics per result; path and file-handle variants",
          "thorough": "N <= 4"}
STUBS = ["numpy.savetxt / loadtxt / save / load: text cells carrying (term, requested format)", "json: placeholder cells (repr precision)",
         "rosbags writer/reader/typestore: recording fakes (message objects passed through)"]
ASSUMPTIONS = ["'%.18e' / repr + strtod round-trip binary64 exactly (17-significant-digit theorem, glibc correct rounding): trusted",
               ".npy stores binary64 exactly: trusted", "pandas moves object cells unchanged"]
OUTSIDE = ["decimal print/parse itself", "rosbags (de)serialisation", "binary64 double rounding of the bag stamp split (<= 2 ulp beyond 1 ns): real mode",
           "branches inside pandas / NumPy on the dtype or the values of a DataFrame index (pandas runs on object cells; seed C06d)"]
MODS = ("evo.tools.file_interface", "evo.tools.pandas_bridge")


def worker_init():
    common.ensure_loaded(MODS)


def cases(tier, seed):
    ns = [1, 2, 3] if tier == "quick" else [1, 2, 3, 4]
    out = []
    for n in ns:
        for via in ("path", "pathlib", "handle"):
            out.append(dict(name="tum_roundtrip_N%d_%s" % (n, via), kind="tum", n=n, via=via))
            out.append(dict(name="kitti_roundtrip_N%d_%s" % (n, via), kind="kitti", n=n, via=via))
    # a path that is written, read, written again with other data of the same size and shape, and read again
    for fmt in ("tum", "kitti"):
        for n in ((1, 2) if tier == "quick" else (1, 2, 3)):
            out.append(dict(name="%s_rewrite_same_path_N%d" % (fmt, n), kind="rewrite", fmt=fmt, n=n))
    for trajs in (0, 1, 2):
        for via in ("path", "handle"):
            out.append(dict(name="result_archive_%dtraj_%s" % (trajs, via), kind="res", trajs=trajs, via=via))
    out.append(dict(name="result_archive_long_ref_short_est", kind="res", trajs=2, via="path", sizes=(3, 1)))
    out.append(dict(name="result_archive_path_without_stamps", kind="res", trajs=1, via="path", kitti=True))
    for n in (1, 2):
        out.append(dict(name="pandas_trajectory_N%d" % n, kind="pandas", n=n, stamped=True))
        out.append(dict(name="pandas_path_N%d" % n, kind="pandas", n=n, stamped=False))
    out.append(dict(name="bag_export_N2", kind="bag", n=2))
    return out


def run_case(case, col):
    globals()["run_" + case["kind"]](case, col)


def FI():
    return common.S("evo.tools.file_interface")


def tmpdir():
    return tempfile.mkdtemp(prefix="evoverif_c06_", dir=os.environ.get("TMPDIR", "/tmp"))


def same_traj(a, Tj, stamped=True):
    """concrete term-identity comparison of a re-read trajectory with the symbolic original"""
    n = Tj.n
    ok = a.num_poses == n and len(a.positions_xyz) == n and len(a.orientations_quat_wxyz) == n
    if not ok:
        return False
    for i in range(n):
        ok &= common.same_terms(a.positions_xyz[i], [SymReal(v) for v in Tj.p[i]])
        ok &= common.same_terms(a.orientations_quat_wxyz[i], [SymReal(v) for v in Tj.q[i]])
        if stamped:
            ok &= common.same_terms([a.timestamps[i]], [SymReal(Tj.t[i])])
    return bool(ok)


def eq_traj_goal(a, Tj, stamped=True):
    n = Tj.n
    if not (a.num_poses == n and len(a.positions_xyz) == n and len(a.orientations_quat_wxyz) == n and (not stamped or len(a.timestamps) == n)):
        return z3.BoolVal(False)
    eqs = []
    for i in range(n):
        eqs += [sc.eq_goal(a.positions_xyz[i][k], SymReal(Tj.p[i][k])) for k in range(3)]
        eqs += [sc.eq_goal(a.orientations_quat_wxyz[i][k], SymReal(Tj.q[i][k])) for k in range(4)]
        if stamped:
            eqs.append(sc.eq_goal(a.timestamps[i], SymReal(Tj.t[i])))
    return z3.And(eqs)


def hard_values(vals, names):
    """replay inputs that need all 17 significant digits"""
    out = dict(vals)
    import random
    rng = random.Random(7)
    for n in names:
        out[n] = Fraction(float(out.get(n, 0)) + rng.random() * 1e-3 + 1.0 / 3.0)
    return out


def exc_is_violation(col, inputs, replay, case):
    """a write / re-read round trip that ends in an exception is a loss"""
    def on_exc(pr):
        def rp(vals):
            try:
                return replay(vals)
            except Exception as e:      # noqa: BLE001
                return True, "round trip raised %s: %s" % (type(e).__name__, str(e)[:120])
        runner.check_obligations(col, pr.ctx, {"round_trip_completes": z3.BoolVal(False)}, inputs, rp,
                                 descr="%s raised %s" % (case["name"], pr.status))
    return on_exc


def run_tum(case, col):
    n, via = case["n"], case["via"]
    Tj = SymTraj("a", n)
    inputs = Tj.inputs()

    def fn():
        textcells.reset()
        d = tmpdir()
        try:
            t = Tj.build("quat")
            p = os.path.join(d, "t.tum")
            if via == "handle":
                with open(p, "w") as f:
                    FI().write_tum_trajectory_file(f, t)
                with open(p) as f:
                    back = FI().read_tum_trajectory_file(f)
            else:
                from pathlib import Path
                pp = Path(p) if via == "pathlib" else p
                FI().write_tum_trajectory_file(pp, t)
                back = FI().read_tum_trajectory_file(pp)
            return back, list(textcells.LOG)
        finally:
            shutil.rmtree(d, ignore_errors=True)

    def replay(vals):
        return replay_text(vals, Tj, "tum", via)

    def on_ok(pr):
        back, log = pr.out
        g = {"same_number_and_order_of_poses": z3.BoolVal(back.num_poses == n),
             "every_stamp_coordinate_quaternion_component_identical": eq_traj_goal(back, Tj),
             "is_a_timestamped_trajectory": z3.BoolVal(hasattr(back, "timestamps"))}
        runner.check_obligations(col, pr.ctx, g, inputs, replay, descr="%s fmt=%r" % (case["name"], [l[1].get("fmt") for l in log if l[0] == "savetxt"]))
    runner.explore_case(col, fn, Tj.assumptions(), on_ok, exc_is_violation(col, inputs, replay, case), pins=common.pins_for(Tj, n=1))


def replay_text(vals, Tj, fmt, via):
    """real evo on real numpy: values that need all 17 digits"""
    FIr = common.R("evo.tools.file_interface")
    Tr = common.R("evo.core.trajectory")
    hv = hard_values(vals, list(Tj.inputs()))
    t = Tj.concrete(hv, "quat", normalise=False)
    if Tj.t is not None:
        t.timestamps = rnp.sort(t.timestamps) + 1.5e9
    d = tmpdir()
    try:
        p = os.path.join(d, "t.txt")
        if fmt == "tum":
            w, r = FIr.write_tum_trajectory_file, FIr.read_tum_trajectory_file
        else:
            w, r = FIr.write_kitti_poses_file, FIr.read_kitti_poses_file
        if via == "handle":
            with open(p, "w") as f:
                w(f, t)
            with open(p) as f:
                back = r(f)
        else:
            from pathlib import Path
            pp = Path(p) if via == "pathlib" else p
            w(pp, t)
            back = r(pp)
        bad = []
        if back.num_poses != t.num_poses:
            bad.append("%d poses written, %d read" % (t.num_poses, back.num_poses))
        elif fmt == "tum":
            if not (rnp.array_equal(back.timestamps, t.timestamps) and rnp.array_equal(back.positions_xyz, t.positions_xyz)
                    and rnp.array_equal(back.orientations_quat_wxyz, t.orientations_quat_wxyz)):
                bad.append("re-read values differ from the written float64 values")
        else:
            if not all(rnp.array_equal(a, b) for a, b in zip(back.poses_se3, t.poses_se3)):
                bad.append("re-read pose matrices differ from the written float64 values")
        return bool(bad), "; ".join(bad) or "ok"
    finally:
        shutil.rmtree(d, ignore_errors=True)


def run_kitti(case, col):
    n, via = case["n"], case["via"]
    Tj = SymTraj("a", n, stamps=False)
    inputs = Tj.inputs()

    def fn():
        textcells.reset()
        d = tmpdir()
        try:
            t = Tj.build("se3")
            orig = [rnp.asarray(p).copy() for p in t.poses_se3]
            p = os.path.join(d, "t.kitti")
            if via == "handle":
                with open(p, "w") as f:
                    FI().write_kitti_poses_file(f, t)
                with open(p) as f:
                    back = FI().read_kitti_poses_file(f)
            else:
                from pathlib import Path
                pp = Path(p) if via == "pathlib" else p
                FI().write_kitti_poses_file(pp, t)
                back = FI().read_kitti_poses_file(pp)
            return back, orig
        finally:
            shutil.rmtree(d, ignore_errors=True)

    def on_ok(pr):
        back, orig = pr.out
        ok = len(back.poses_se3) == n
        eqs = []
        if ok:
            for i in range(n):
                eqs += [sc.eq_goal(back.poses_se3[i][a, b], orig[i][a, b]) for a in range(4) for b in range(4)]
        g = {"same_number_and_order_of_poses": z3.BoolVal(ok), "every_matrix_entry_identical": z3.And(eqs) if ok else z3.BoolVal(False)}
        runner.check_obligations(col, pr.ctx, g, inputs, lambda v: replay_text(v, Tj, "kitti", via), descr=case["name"])
    runner.explore_case(col, fn, Tj.assumptions(), on_ok, exc_is_violation(col, inputs, lambda v: replay_text(v, Tj, "kitti", via), case),
                        pins=common.pins_for(Tj, n=1))


def run_res(case, col):
    ntraj, via = case["trajs"], case["via"]
    sizes = case.get("sizes", (2, 2))
    Rm = common.S("evo.core.result")
    A = SymTraj("ref", sizes[0], stamps=not case.get("kitti"))
    B = SymTraj("est", sizes[1])
    inputs = dict(A.inputs(), **B.inputs())
    st = {k: z3.Real("stat_" + k) for k in ("rmse", "mean", "max")}
    arrs = {"error_array": [z3.Real("err_%d" % i) for i in range(3)], "timestamps": [z3.Real("ts_%d" % i) for i in range(3)],
            "alignment_transformation_sim3": [z3.Real("al_%d" % i) for i in range(16)]}
    inputs.update({str(v): v for v in st.values()})
    inputs.update({str(v): v for vs in arrs.values() for v in vs})
    info = {"title": "APE w.r.t. translation part (m)\n(not aligned)", "label": "APE (m)", "ref_name": "réf.txt", "est_name": "est ünïcode.txt"}

    def build(mod, traj_a, traj_b, num, vals=None):
        r = mod.Result()
        r.add_info(dict(info))
        if vals is None:
            r.add_stats({k: SymReal(v) for k, v in st.items()})
            r.add_np_array("error_array", symnp.array([SymReal(v) for v in arrs["error_array"]]))
            r.add_np_array("timestamps", symnp.array([SymReal(v) for v in arrs["timestamps"]]))
            r.add_np_array("alignment_transformation_sim3", symnp.array([SymReal(v) for v in arrs["alignment_transformation_sim3"]]).reshape(4, 4))
        else:
            r.add_stats({k: float(vals[str(v)]) for k, v in st.items()})
            for k in arrs:
                a = rnp.array([float(vals[str(v)]) for v in arrs[k]])
                r.add_np_array(k, a.reshape(4, 4) if k.startswith("align") else a)
        if num >= 1:
            r.add_trajectory("ref", traj_a)
        if num >= 2:
            r.add_trajectory("est", traj_b)
        return r

    def fn():
        textcells.reset()
        d = tmpdir()
        try:
            ta, tb = A.build("quat"), B.build("quat")
            r = build(Rm, ta, tb, ntraj)
            p = os.path.join(d, "res.zip")
            if via == "handle":
                with open(p, "wb") as f:
                    FI().save_res_file(f, r)
                with open(p, "rb") as f:
                    back = FI().load_res_file(f, load_trajectories=True)
                    plain = None
            else:
                FI().save_res_file(p, r)
                back = FI().load_res_file(p, load_trajectories=True)
                plain = FI().load_res_file(p)
            return r, back, plain
        finally:
            shutil.rmtree(d, ignore_errors=True)

    def replay(vals):
        FIr, Rr = common.R("evo.tools.file_interface"), common.R("evo.core.result")
        hv = hard_values(vals, list(inputs))
        ta, tb = A.concrete(hv, "quat", normalise=False), B.concrete(hv, "quat", normalise=False)
        for t in (ta, tb):
            if hasattr(t, "timestamps"):
                t.timestamps = rnp.sort(t.timestamps) + 1.5e9
        r = build(Rr, ta, tb, ntraj, hv)
        d = tmpdir()
        try:
            p = os.path.join(d, "res.zip")
            if via == "handle":
                with open(p, "wb") as f:
                    FIr.save_res_file(f, r)
                with open(p, "rb") as f:
                    back = FIr.load_res_file(f, load_trajectories=True)
            else:
                FIr.save_res_file(p, r)
                back = FIr.load_res_file(p, load_trajectories=True)
            bad = []
            if back.info != r.info:
                bad.append("info differs")
            if back.stats != r.stats:
                bad.append("statistics differ")
            for k in r.np_arrays:
                if k not in back.np_arrays or not rnp.array_equal(back.np_arrays[k], r.np_arrays[k]):
                    bad.append("array %s differs" % k)
            for k, t in r.trajectories.items():
                b = back.trajectories.get(k)
                if b is None or b.num_poses != t.num_poses or not rnp.array_equal(b.positions_xyz, t.positions_xyz) \
                        or not rnp.array_equal(b.orientations_quat_wxyz, t.orientations_quat_wxyz) \
                        or (hasattr(t, "timestamps") and not rnp.array_equal(b.timestamps, t.timestamps)):
                    bad.append("trajectory %s differs (%s poses read for %d written)" % (k, getattr(b, "num_poses", None), t.num_poses))
            return bool(bad), "; ".join(bad) or "ok"
        finally:
            shutil.rmtree(d, ignore_errors=True)

    def on_ok(pr):
        r, back, plain = pr.out
        g = {"info_identical_incl_unicode": z3.BoolVal(back.info == info),
             "statistic_keys": z3.BoolVal(sorted(back.stats) == sorted(st))}
        if sorted(back.stats) == sorted(st):
            g["statistics_identical"] = z3.And([sc.eq_goal(back.stats[k], SymReal(v)) for k, v in st.items()])
        g["array_keys"] = z3.BoolVal(sorted(back.np_arrays) == sorted(arrs))
        if sorted(back.np_arrays) == sorted(arrs):
            eqs = []
            for k, vs in arrs.items():
                got = rnp.asarray(back.np_arrays[k], dtype=object)
                exp_shape = (4, 4) if k.startswith("align") else (len(vs),)
                if got.shape != exp_shape:
                    eqs.append(z3.BoolVal(False))
                    continue
                eqs += [sc.eq_goal(x, SymReal(v)) for x, v in zip(got.reshape(-1), vs)]
            g["arrays_identical_incl_shape"] = z3.And(eqs)
        exp_names = ["ref", "est"][:ntraj]
        g["embedded_trajectories_present"] = z3.BoolVal(sorted(back.trajectories) == sorted(exp_names))
        if sorted(back.trajectories) == sorted(exp_names):
            for nm, Tj in (("ref", A), ("est", B)):
                if nm in exp_names:
                    stamped = Tj.t is not None
                    bt = back.trajectories[nm]
                    if stamped:
                        g["trajectory_%s_identical" % nm] = eq_traj_goal(bt, Tj)
                    else:
                        orig = Tj.poses()
                        ok = len(bt.poses_se3) == Tj.n
                        g["trajectory_%s_identical" % nm] = z3.And(
                            [sc.eq_goal(bt.poses_se3[i][a, b], orig[i][a, b]) for i in range(Tj.n) for a in range(4) for b in range(4)]) \
                            if ok else z3.BoolVal(False)
        if plain is not None:
            g["loading_without_trajectories_gives_none"] = z3.BoolVal(len(plain.trajectories) == 0 and sorted(plain.stats) == sorted(st))
        runner.check_obligations(col, pr.ctx, g, inputs, replay, descr=case["name"])
    runner.explore_case(col, fn, A.assumptions() + B.assumptions(), on_ok, exc_is_violation(col, inputs, replay, case),
                        pins=common.pins_for(A, B, n=1))


def run_rewrite(case, col):
    """write A, read, write B (same number of poses, hence the same file size) to the same path, read: the second
    read returns B -- a reader must not answer from anything but the file as it is now"""
    fmt, n = case["fmt"], case["n"]
    stamped = fmt == "tum"
    A, B = SymTraj("a", n, stamps=stamped), SymTraj("b", n, stamps=stamped)
    inputs = dict(A.inputs(), **B.inputs())

    def rw(fi):
        if fmt == "tum":
            return fi.write_tum_trajectory_file, fi.read_tum_trajectory_file
        return fi.write_kitti_poses_file, fi.read_kitti_poses_file

    def fn():
        textcells.reset()
        d = tmpdir()
        try:
            w, r = rw(FI())
            p = os.path.join(d, "t." + fmt)
            w(p, A.build("quat"))
            back1 = r(p)
            size1 = os.path.getsize(p)
            w(p, B.build("quat"))
            back2 = r(p)
            return back1, back2, size1 == os.path.getsize(p)
        finally:
            shutil.rmtree(d, ignore_errors=True)

    def replay(vals):
        FIr = common.R("evo.tools.file_interface")
        hv = hard_values(vals, list(inputs))
        ta, tb = A.concrete(hv, "quat", normalise=False), B.concrete(hv, "quat", normalise=False)
        tb._positions_xyz = tb.positions_xyz + 0.25
        if stamped:
            ta.timestamps = rnp.sort(ta.timestamps) + 1.5e9
            tb.timestamps = rnp.sort(tb.timestamps) + 1.6e9
        d = tmpdir()
        try:
            w, r = rw(FIr)
            p = os.path.join(d, "t.txt")
            w(p, ta)
            b1 = r(p)
            w(p, tb)
            b2 = r(p)
            bad = []
            for nm, back, t in (("first", b1, ta), ("second (after the path was rewritten)", b2, tb)):
                if back.num_poses != t.num_poses:
                    bad.append("%s read: %d poses written, %d read" % (nm, t.num_poses, back.num_poses))
                elif not (rnp.array_equal(back.positions_xyz, t.positions_xyz) and
                          (not stamped or rnp.array_equal(back.timestamps, t.timestamps)) and
                          all(rnp.array_equal(x, y) for x, y in zip(back.poses_se3, t.poses_se3))):
                    bad.append("%s read differs from what was written last" % nm)
            return bool(bad), "; ".join(bad) or "ok"
        finally:
            shutil.rmtree(d, ignore_errors=True)

    def goal(back, Tj):
        if fmt == "tum":
            return eq_traj_goal(back, Tj)
        if len(back.poses_se3) != n:
            return z3.BoolVal(False)
        eqs = []
        for i in range(n):
            Rz = common.zR(Tj.q[i])
            eqs += [sc.eq_goal(back.poses_se3[i][a, b], SymReal(Rz[a][b])) for a in range(3) for b in range(3)]
            eqs += [sc.eq_goal(back.poses_se3[i][a, 3], SymReal(Tj.p[i][a])) for a in range(3)]
        return z3.And(eqs)

    def on_ok(pr):
        back1, back2, same_size = pr.out
        g = {"model_files_have_equal_size_like_evos_fixed_width_cells": z3.BoolVal(bool(same_size)),
             "first_read_returns_the_first_data": goal(back1, A),
             "second_read_returns_the_data_written_last": goal(back2, B)}
        runner.check_obligations(col, pr.ctx, g, inputs, replay, descr=case["name"])
    runner.explore_case(col, fn, A.assumptions() + B.assumptions(), on_ok, exc_is_violation(col, inputs, replay, case),
                        pins=common.pins_for(A, B, n=1), must_reach=("ok",))


def run_pandas(case, col):
    n, stamped = case["n"], case["stamped"]
    Tj = SymTraj("a", n, stamps=stamped)
    PB = common.S("evo.tools.pandas_bridge")
    Tt = common.S("evo.core.trajectory")

    def fn():
        t = Tj.build("quat")
        df = PB.trajectory_to_df(t)
        back = PB.df_to_trajectory(df)
        back2 = PB.df_to_trajectory(df, as_type=Tt.PosePath3D)
        return df, back, back2

    def replay(vals):
        PBr = common.R("evo.tools.pandas_bridge")
        hv = hard_values(vals, list(Tj.inputs()))
        t = Tj.concrete(hv, "quat", normalise=False)
        if stamped:
            t.timestamps = rnp.sort(t.timestamps) + 1.5e9
        back = PBr.df_to_trajectory(PBr.trajectory_to_df(t))
        bad = []
        if type(back) is not type(t):
            bad.append("type changed to %s" % type(back).__name__)
        if not (rnp.array_equal(back.positions_xyz, t.positions_xyz) and rnp.array_equal(back.orientations_quat_wxyz, t.orientations_quat_wxyz)):
            bad.append("values differ")
        if stamped and not rnp.array_equal(back.timestamps, t.timestamps):
            bad.append("timestamps differ")
        return bool(bad), "; ".join(bad) or "ok"

    def on_ok(pr):
        df, back, back2 = pr.out
        g = {"dataframe_shape": z3.BoolVal(df.shape == (n, 7) and list(df.columns) == ["x", "y", "z", "qw", "qx", "qy", "qz"]),
             "type_preserved": z3.BoolVal(isinstance(back, Tt.PoseTrajectory3D) == stamped),
             "values_identical": eq_traj_goal(back, Tj, stamped),
             "explicit_path_type": z3.BoolVal(type(back2) is Tt.PosePath3D and same_traj(back2, Tj, False))}
        runner.check_obligations(col, pr.ctx, g, Tj.inputs(), replay, descr=case["name"])
    runner.explore_case(col, fn, Tj.assumptions(), on_ok, None, pins=common.pins_for(Tj, n=1), must_reach=("ok",))


# --------------------------------------------------------------------------
# bag export: recording writer / replaying reader, real write_/read_bag_trajectory in between
# --------------------------------------------------------------------------
class _Rec:
    def __init__(self, *a, **k):
        self.a, self.k = a, k


def run_bag(case, col):
    n = case["n"]
    Tj = SymTraj("a", n)
    inputs = Tj.inputs()
    fi = FI()
    from rosbags.rosbag1 import Writer as W1, Reader as R1

    class Time:
        def __init__(self, sec, nanosec):
            self.sec, self.nanosec = sec, nanosec

    class Header:
        def __init__(self, seq, stamp, frame_id):
            self.seq, self.stamp, self.frame_id = seq, stamp, frame_id

    class Point:
        def __init__(self, x, y, z):
            self.x, self.y, self.z = x, y, z

    class Quat:
        def __init__(self, w=None, x=None, y=None, z=None):
            self.w, self.x, self.y, self.z = w, x, y, z

    class Pose:
        def __init__(self, position, orientation):
            self.position, self.orientation = position, orientation

    class PoseStamped:
        __msgtype__ = "geometry_msgs/msg/PoseStamped"

        def __init__(self, header, pose):
            self.header, self.pose = header, pose

    class Typestore:
        types = {"builtin_interfaces/msg/Time": Time, "std_msgs/msg/Header": Header, "geometry_msgs/msg/Point": Point,
                 "geometry_msgs/msg/Quaternion": Quat, "geometry_msgs/msg/Pose": Pose, "geometry_msgs/msg/PoseStamped": PoseStamped}

        def serialize_ros1(self, msg, msgtype):
            return msg

        def deserialize_ros1(self, raw, msgtype):
            return raw

    class Conn:
        def __init__(self, topic, msgtype):
            self.topic, self.msgtype, self.msgcount = topic, msgtype, 0

    class FakeWriter(W1):
        def __init__(self):
            self.conns, self.msgs = [], []

        def add_connection(self, topic, msgtype, **k):
            c = Conn(topic, msgtype)
            self.conns.append(c)
            return c

        def write(self, connection, timestamp, data):
            connection.msgcount += 1
            self.msgs.append((connection, timestamp, data))

    class FakeReader(R1):
        def __init__(self, w):
            self.w = w

        @property
        def connections(self):
            return self.w.conns

        @property
        def topics(self):
            return {c.topic: c for c in self.w.conns}

        def messages(self, connections=()):
            for c, ts, d in self.w.msgs:
                if c in connections:
                    yield c, ts, d

    def fn():
        saved = fi.get_typestore
        fi.get_typestore = lambda store: Typestore()
        try:
            t = Tj.build("quat")
            w = FakeWriter()
            fi.write_bag_trajectory(w, t, "/pose", frame_id="map")
            back = fi.read_bag_trajectory(FakeReader(w), "/pose")
            return back, w
        finally:
            fi.get_typestore = saved

    def replay(vals):
        # the real rosbags writer is exercised by the repository's own (currently failing) bag test; here: the kernel
        bad = []
        for i in range(n):
            s = float(vals[str(Tj.t[i])])
            if s < 0:
                continue
            sec = int(s // 1)
            ns = int((s - sec) * 1e9)
            back = sec + ns * 1e-9
            if abs(back - s) > 1e-9 + 4 * abs(s) * 2.2e-16:
                bad.append("stamp %r re-read as %r" % (s, back))
        return bool(bad), "; ".join(bad) or "ok"

    def on_ok(pr):
        back, w = pr.out
        ns = sc.q_of(Fraction(1, 10 ** 9))
        ok = back.num_poses == n
        g = {"same_number_of_poses": z3.BoolVal(ok)}
        if ok:
            g["positions_and_orientations_exact"] = z3.And(
                [sc.eq_goal(back.positions_xyz[i][k], SymReal(Tj.p[i][k])) for i in range(n) for k in range(3)] +
                [sc.eq_goal(back.orientations_quat_wxyz[i][k], SymReal(Tj.q[i][k])) for i in range(n) for k in range(4)])
            g["timestamps_within_one_nanosecond"] = z3.And(
                [z3.And(toz(back.timestamps[i]) - Tj.t[i] <= ns, Tj.t[i] - toz(back.timestamps[i]) <= ns) for i in range(n)])
            g["frame_id_preserved"] = z3.BoolVal(back.meta.get("frame_id") == "map")
        runner.check_obligations(col, pr.ctx, g, inputs, replay, descr=case["name"])

    runner.explore_case(col, fn, Tj.assumptions() + [Tj.t[0] >= 0], on_ok, None, pins=common.pins_for(Tj, n=1), must_reach=("ok",))


def replay_file(rec):
    return False, "re-run ./check C06"
