"""C19 -- the settings file stays loadable across crashes and concurrent starts.

Bounded model checking with the real code as the transition relation: the *source* of evo/tools/settings.py
(and set_config / merge_json_union of evo/main_config.py) is compiled from /repo and executed in namespaces
whose `open`, `Path`, `os` and `print` are an in-memory file-system model in which every mutating primitive is a
step.  Crash points: a solver-decided step index (and how much of a cut write reaches the disk); afterwards a
fresh process start runs on the surviving tree.  Concurrency: two starts as threads that hand over at every
primitive; the interleavings are explored breadth-first with pruning of visited states.
"""
import ast
import io
import json
import os
import sys
import threading
import types
from fractions import Fraction

import z3

from evoverif import runner, symcore as sc, fsmodel
from evoverif.fsmodel import FS, Crash
from . import common

PROPERTY = "C19"
LEVEL = "model_checking"
FUNCTIONS = ["evo/tools/settings.py module code (initialize_if_needed, update_if_outdated, SettingsContainer.from_json_file at import time)",
             "settings.reset", "settings.write_to_json_file", "settings.merge_dicts", "main_config.set_config", "main_config.merge_json_union"]
BOUNDS = {"quick": "<= 40 file-system steps per operation, 1 crash (every step; a cut write leaves nothing or half), then 1 fresh start; "
                   "2 concurrently starting processes on an empty home, every interleaving of their primitives (state-pruned)",
          "thorough": "same, plus upgrade raced by a start, and crash during the post-upgrade start"}
STUBS = ["builtins.open / pathlib.Path / os.replace / os.path: in-memory file system, rename atomic (POSIX)", "print: no-op"]
ASSUMPTIONS = ["rename is atomic; a crash loses nothing that a completed primitive wrote (no fsync modelling)"]
OUTSIDE = ["OS-level durability (fsync)", "more than two processes", "crashes during the recovery start"]
HOME = "/home/user"
EVO_DIR = HOME + "/.evo"
SETTINGS = EVO_DIR + "/settings.json"
VERSION = EVO_DIR + "/assets_version"


def worker_init():
    common.ensure_loaded()


def cases(tier, seed):
    out = [dict(name="crash_%s" % op, kind="crash", op=op) for op in
           ("first_start", "upgrade", "reset_all", "reset_subset", "set_config", "merge_json_union")]
    out.append(dict(name="concurrent_first_starts", kind="race", a="start", b="start", tree="empty"))
    if tier != "quick":
        out.append(dict(name="upgrade_raced_by_start", kind="race", a="start", b="start", tree="outdated"))
    out.append(dict(name="no_crash_baseline", kind="baseline"))
    return out


def run_case(case, col):
    globals()["run_" + case["kind"]](case, col)


# --------------------------------------------------------------------------
# running evo's code on the model
# --------------------------------------------------------------------------
class _DropPathlib(ast.NodeTransformer):
    def visit_ImportFrom(self, node):
        if node.module == "pathlib":
            return ast.Pass()
        return node

    def visit_Import(self, node):
        names = [a for a in node.names if a.name not in ("os", "tempfile")]
        if not names:
            return ast.Pass()
        node.names = names
        return node


_CODE = {}


def compiled(rel):
    repo = os.environ.get("EVOVERIF_REPO", "/repo")
    fn = os.path.join(repo, rel)
    key = (fn, os.path.getmtime(fn))
    if key not in _CODE:
        with open(fn) as f:
            tree = ast.parse(f.read(), filename=fn)
        tree = _DropPathlib().visit(tree)
        ast.fix_missing_locations(tree)
        _CODE[key] = compile(tree, fn, "exec")
    return _CODE[key]


class FakeTempfile:
    """tempfile on the model (for atomic-write implementations)"""

    def __init__(self, fs):
        self.fs = fs
        self.n = 0

    def NamedTemporaryFile(self, mode="w", dir=None, delete=True, prefix="tmp", suffix="", **k):
        self.n += 1
        p = os.path.join(str(dir or "/tmp"), "%s%d_%s%s" % (prefix, self.n, threading.current_thread().name, suffix))
        f = self.fs.open(p, mode.replace("+", "") if "w" in mode else "w")
        f.name = p
        return f

    def mkstemp(self, suffix="", prefix="tmp", dir=None, text=False):
        raise NotImplementedError("mkstemp on the model")


def start_process(fs):
    """a fresh evo process start: executes the module code of evo/tools/settings.py on the model; returns the namespace"""
    ns = {"__name__": "evo.tools.settings", "__builtins__": __builtins__, "open": fs.open, "Path": fsmodel.make_path_class(fs, HOME),
          "print": lambda *a, **k: None, "os": fsmodel.FakeOS(fs), "tempfile": FakeTempfile(fs)}
    exec(compiled("evo/tools/settings.py"), ns)
    return ns


def main_config_ns(fs, settings_ns):
    mod = types.ModuleType("settings_on_model")
    mod.__dict__.update(settings_ns)
    ns = {"__name__": "evo.main_config", "__builtins__": __builtins__, "open": fs.open, "print": lambda *a, **k: None,
          "os": fsmodel.FakeOS(fs), "tempfile": FakeTempfile(fs)}
    code = compiled("evo/main_config.py")
    exec(code, ns)
    ns["settings"] = mod
    return ns


def default_dict():
    from evo.tools.settings_template import DEFAULT_SETTINGS_DICT
    return dict(DEFAULT_SETTINGS_DICT)


def tree(kind):
    import evo
    fs = FS(dirs={"/", "/home", HOME, "/tmp"})
    if kind == "empty":
        return fs
    D = default_dict()
    user = dict(D, plot_linewidth=9.5, plot_usetex=True)
    fs.dirs.add(EVO_DIR)
    if kind == "outdated":
        old = {k: v for k, v in user.items() if k not in ("plot_seaborn_palette", "tf_cache_max_time")}
        fs.files[SETTINGS] = json.dumps(old, indent=4, sort_keys=True).encode()
        fs.files[VERSION] = b"v0.0.1"
    else:
        fs.files[SETTINGS] = json.dumps(user, indent=4, sort_keys=True).encode()
        fs.files[VERSION] = evo.__version__.encode()
    fs.files[HOME + "/other.json"] = json.dumps({"plot_linewidth": 3.0, "plot_split": True}).encode()
    return fs


def operation(op, fs):
    """runs the operation on fs (may raise Crash)"""
    if op in ("first_start", "upgrade"):
        start_process(fs)
        return
    ns = start_process(fs)
    if op == "reset_all":
        ns["reset"]()
    elif op == "reset_subset":
        ns["reset"](ns["DEFAULT_PATH"], parameter_subset=["plot_linewidth", "plot_usetex"])
    elif op == "set_config":
        mc = main_config_ns(fs, ns)
        mc["set_config"](SETTINGS, ["plot_linewidth", "2.5", "plot_split"])
    elif op == "merge_json_union":
        mc = main_config_ns(fs, ns)
        mc["merge_json_union"](SETTINGS, HOME + "/other.json", False)


BASE_TREE = {"first_start": "empty", "upgrade": "outdated", "reset_all": "current", "reset_subset": "current", "set_config": "current",
             "merge_json_union": "current"}


def check_tree(fs, what):
    """the property's observation: settings file absent or a complete JSON document; a fresh start succeeds and sees every default key"""
    bad = []
    if SETTINGS in fs.files:
        try:
            doc = json.loads(fs.files[SETTINGS].decode("utf-8"))
            if not isinstance(doc, dict):
                bad.append("settings.json is not a JSON object %s" % what)
        except ValueError:
            bad.append("settings.json on disk is not a complete JSON document (%d bytes) %s" % (len(fs.files[SETTINGS]), what))
    f2 = fs.clone()
    try:
        ns = start_process(f2)
        S = ns["SETTINGS"]
        missing = [k for k in default_dict() if k not in S]
        if missing:
            bad.append("a start %s does not see default keys %r" % (what, missing[:3]))
    except BaseException as e:      # noqa: BLE001
        bad.append("a start %s fails with %s: %s" % (what, type(e).__name__, str(e)[:80]))
    return bad


def count_steps(op):
    fs = tree(BASE_TREE[op])
    before = fs.steps
    operation(op, fs)
    return fs.steps - before, list(fs.trace)


def run_crash(case, col):
    op = case["op"]
    nsteps, trace = count_steps(op)
    # the steps of the preparatory start (for operations that need a loaded module) are not crash points of the operation
    prep = 0
    if op not in ("first_start", "upgrade"):
        fs0 = tree(BASE_TREE[op])
        start_process(fs0)
        prep = fs0.steps
    col.note("%s: %d file-system steps (%d of them in the preparatory start): %s" % (op, nsteps, prep, " | ".join(trace)[:600]))
    known = runner.load_known(PROPERTY)
    inputs = {"crash_at": z3.Int("crash_at!c0"), "partial": z3.Int("partial!c1")}
    states = set()

    def fn():
        c = sc.ctx()
        k = prep + c.choose(nsteps - prep + 1, "crash_at")        # == nsteps: no crash
        part = c.choose(2, "partial")
        fs = tree(BASE_TREE[op])
        fs.crash_at = k if k < nsteps else None
        fs.partial = [None, 0.5][part]
        crashed = None
        try:
            operation(op, fs)
        except Crash as e:
            crashed = str(e)
        fs.crash_at = None
        return fs, k, part, crashed

    def on_ok(pr):
        fs, k, part, crashed = pr.out
        states.add(fs.snapshot())
        what = "after %s was killed at step %d (%s%s)" % (op, k, crashed, ", half of the write on disk" if part and crashed == "write" else "") \
            if crashed else "after an undisturbed %s" % op
        bad = check_tree(fs, what)
        kp = {}
        key = "crash.%s.non_atomic_write" % op
        if key in known:
            kp[key] = z3.BoolVal(crashed is not None)

        def replay(vals):
            # the model run *is* the real code; the replay re-runs it deterministically
            fs2 = tree(BASE_TREE[op])
            fs2.crash_at, fs2.partial = (k if k < nsteps else None), [None, 0.5][part]
            try:
                operation(op, fs2)
            except Crash:
                pass
            fs2.crash_at = None
            b2 = check_tree(fs2, what)
            return bool(b2), "; ".join(b2) + " [trace: %s]" % " | ".join(fs2.trace[-6:])
        runner.check_obligations(col, pr.ctx, {"settings_file_absent_or_complete_and_next_start_succeeds": z3.BoolVal(not bad)},
                                 inputs, replay, known=kp, descr=what)
        col.d["states"] = len(states)

    runner.explore_case(col, fn, [], on_ok, None, max_paths=400)
    col.d["transitions"] = col.d.get("transitions", 0) + nsteps


def run_baseline(case, col):
    def fn():
        sc.ctx().choose(1, "none")
        out = {}
        for op, t in BASE_TREE.items():
            fs = tree(t)
            operation(op, fs)
            out[op] = (fs, check_tree(fs, "after an undisturbed %s" % op))
        return out

    def on_ok(pr):
        g = {}
        for op, (fs, bad) in pr.out.items():
            g["undisturbed_%s_leaves_a_loadable_settings_file" % op] = z3.BoolVal(not bad)
        fs = pr.out["set_config"][0]
        doc = json.loads(fs.files[SETTINGS])
        g["set_config_effect"] = z3.BoolVal(doc["plot_linewidth"] == 2.5 and doc["plot_split"] is True)
        doc = json.loads(pr.out["reset_subset"][0].files[SETTINGS])
        g["reset_subset_effect"] = z3.BoolVal(doc["plot_linewidth"] == default_dict()["plot_linewidth"])
        doc = json.loads(pr.out["upgrade"][0].files[SETTINGS])
        g["upgrade_effect"] = z3.BoolVal(doc["plot_linewidth"] == 9.5 and "tf_cache_max_time" in doc)
        runner.check_obligations(col, pr.ctx, g, {}, lambda v: (True, "baseline operation does not have its effect"), descr="baseline")
    runner.explore_case(col, fn, [], on_ok, None)


# --------------------------------------------------------------------------
# interleavings of two process starts
# --------------------------------------------------------------------------
class Sched:
    """runs two virtual processes as threads that hand over before every file-system primitive; `schedule` is the
    list of process ids to run at each hand-over point; after it is exhausted process 0 runs to completion first"""

    def __init__(self, fs, bodies, schedule):
        self.fs, self.bodies, self.schedule = fs, bodies, list(schedule)
        self.turn = threading.Semaphore(0)
        self.go = [threading.Semaphore(0) for _ in bodies]
        self.done = [False] * len(bodies)
        self.result = [None] * len(bodies)
        self.waiting = [None] * len(bodies)
        self.steps_taken = [0] * len(bodies)
        self.local = threading.local()

    def hook(self, what):
        i = getattr(self.local, "pid", None)
        if i is None:
            return
        self.waiting[i] = what
        self.turn.release()
        self.go[i].acquire()
        self.steps_taken[i] += 1

    def body(self, i):
        self.local.pid = i
        self.go[i].acquire()
        try:
            self.bodies[i](self.fs)
            self.result[i] = "ok"
        except BaseException as e:      # noqa: BLE001
            self.result[i] = "%s: %s" % (type(e).__name__, str(e)[:100])
        self.done[i] = True
        self.waiting[i] = None
        self.turn.release()

    def run(self):
        self.fs.hook = self.hook
        ths = [threading.Thread(target=self.body, args=(i,), name="p%d" % i, daemon=True) for i in range(len(self.bodies))]
        for t in ths:
            t.start()
        # let every process advance to its first primitive
        for i in range(len(self.bodies)):
            self.go[i].release()
            self.turn.acquire()
        k = 0
        taken = []
        self.sig_at_prefix = None
        self.alive_at_prefix = None
        while not all(self.done):
            alive = [i for i in range(len(self.bodies)) if not self.done[i]]
            if k == len(self.schedule):
                self.sig_at_prefix = (self.fs.snapshot(), tuple(self.steps_taken), tuple(self.waiting))
                self.alive_at_prefix = list(alive)
            if k < len(self.schedule) and self.schedule[k] in alive:
                i = self.schedule[k]
            else:
                i = alive[0]
            k += 1
            taken.append(i)
            self.go[i].release()
            self.turn.acquire()
        self.fs.hook = None
        for t in ths:
            t.join(timeout=5)
        return taken


def run_race(case, col):
    """breadth-first over schedule prefixes; a prefix whose resulting state (tree contents, per-process progress,
    pending primitives) was already visited is not extended"""
    import collections
    bodies = [lambda fs: start_process(fs), lambda fs: start_process(fs)]
    visited = set()
    queue = collections.deque([()])
    failures = {}
    nsched = ntrans = max_len = 0
    limit = 8000
    while queue and nsched < limit:
        prefix = queue.popleft()
        fs = tree(case["tree"])
        s = Sched(fs, bodies, prefix)
        taken = s.run()
        nsched += 1
        ntrans += len(taken)
        max_len = max(max_len, len(taken))
        if any(r != "ok" for r in s.result):
            key = tuple(sorted(set(r.split(":")[0] for r in s.result if r != "ok")))
            failures.setdefault(key, (tuple(taken), list(s.result), list(fs.trace)))
        else:
            bad = check_tree(fs, "after two concurrent starts")
            if bad:
                failures.setdefault(("final state",), (tuple(taken), bad, list(fs.trace)))
        if s.sig_at_prefix is None or s.sig_at_prefix in visited:
            continue
        visited.add(s.sig_at_prefix)
        for nxt in s.alive_at_prefix:
            queue.append(tuple(prefix) + (nxt,))
    if queue:
        col.d["inconclusive"].append(dict(ob="interleavings", why="schedule budget of %d exhausted with %d prefixes pending" % (limit, len(queue))))
    return finish_race(case, col, failures, len(visited), ntrans, max_len, nsched)


def finish_race(case, col, failures, nstates, ntrans, max_len, nsched):
    known = runner.load_known(PROPERTY)
    col.d["paths"] += nsched
    col.d["distinct_paths"] += nsched
    col.d["outcomes"]["schedules"] = nsched
    col.d["states"] = nstates
    col.d["transitions"] = ntrans
    col.d["obligations"] += 1
    col.sample(dict(schedules=nsched, longest=max_len, failures={",".join(k): v[1] for k, v in failures.items()}))
    if not failures:
        col.d["discharged"] += 1
        return
    key = "race.first_start"
    for k, (prefix, res, trace) in failures.items():
        rec = dict(ob="two_concurrent_starts_both_succeed", witness=dict(schedule=list(prefix)), detail="%s [schedule %s; trace tail: %s]" % (
            res, list(prefix), " | ".join(trace[-8:])), descr=case["name"], known=key if key in known else None, decisions=list(prefix))
        (col.d["known_hits"] if key in known else col.d["violations"]).append(rec)
        if key in known:
            break
    if key in known:
        col.d["discharged"] += 1


def replay_file(rec):
    return False, "re-run ./check C19"
