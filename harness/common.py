"""Shared helpers for the property harnesses: symbolic trajectories, their
concrete twins for replay, quaternion algebra written directly in z3."""
import os
from fractions import Fraction

import numpy as rnp
import z3

from evoverif import loader, symcore as sc, symnp, symrot
from evoverif.symcore import SymReal, toz

_LOADED = {}


def ensure_loaded(extra_modules=()):
    from evoverif import stubs  # noqa: F401  (registers query hooks)
    mods = tuple(loader.DEFAULT_MODULES) + tuple(extra_modules)
    if _LOADED.get("mods") != mods:
        loader.load(mods)
        _LOADED["mods"] = mods
        fi = loader.SYM.get("evo.tools.file_interface")
        if fi is not None:
            from evoverif import textcells
            fi.json = textcells.JsonFacade          # symbolic numbers travel through json as placeholder cells
    return loader.SYM


def S(name):
    return loader.SYM[name]


def R(name):
    return loader.real(name)


# --------------------------------------------------------------------------
# symbolic trajectories
# --------------------------------------------------------------------------
class SymTraj:
    """z3 constants of a trajectory: t[i], p[i][0..2], q[i][0..3] (w,x,y,z)"""

    def __init__(self, prefix, n, stamps=True, unit_quat=True):
        self.prefix, self.n = prefix, n
        self.t = [z3.Real("%s_t%d" % (prefix, i)) for i in range(n)] if stamps else None
        self.p = [[z3.Real("%s_p%d%s" % (prefix, i, c)) for c in "xyz"] for i in range(n)]
        self.q = [[z3.Real("%s_q%d%s" % (prefix, i, c)) for c in "wxyz"] for i in range(n)]
        self.unit_quat = unit_quat

    def inputs(self):
        d = {}
        for i in range(self.n):
            if self.t is not None:
                d[str(self.t[i])] = self.t[i]
            for v in self.p[i] + self.q[i]:
                d[str(v)] = v
        return d

    def assumptions(self, increasing=True):
        a = []
        if self.t is not None and increasing:
            a += [self.t[i] < self.t[i + 1] for i in range(self.n - 1)]
        if self.unit_quat:
            a += [symrot.norm2(q) == 1 for q in self.q]
        return a

    def pin(self, seed=0, only_quat=False):
        """equalities fixing every input to a generic rational value that meets
        the assumptions (for cheap reachability witnesses)"""
        import random
        rng = random.Random("%s/%d" % (self.prefix, seed))
        quads = [(1, 1, 1, 1, 2), (1, 2, 2, 4, 5), (1, 1, 3, 5, 6), (1, 3, 3, 9, 10), (2, 4, 5, 6, 9),
                 (1, 4, 4, 4, 7), (3, 1, 1, 5, 6), (2, 3, 6, 0, 7), (4, 4, 7, 0, 9), (1, 2, 2, 0, 3)]
        out = []
        t = Fraction(rng.randint(0, 5))
        for i in range(self.n):
            if self.t is not None:
                t += Fraction(rng.randint(1, 9), 8)
                if not only_quat:
                    out.append(self.t[i] == sc.q_of(t))
            for v in self.p[i]:
                pv = sc.q_of(Fraction(rng.randint(-40, 40), 8))
                if not only_quat:
                    out.append(v == pv)
            q = list(quads[rng.randrange(len(quads))])
            d = q.pop()
            rng.shuffle(q)
            q = [x * rng.choice((1, -1)) for x in q]
            if not self.unit_quat:
                d = 1
            for v, x in zip(self.q[i], q):
                out.append(v == sc.q_of(Fraction(x, d)))
        return out

    # facade-side objects ---------------------------------------------------
    def arrays(self):
        xyz = symnp.array([[SymReal(v) for v in row] for row in self.p])
        quat = symnp.array([[SymReal(v) for v in row] for row in self.q])
        ts = symnp.array([SymReal(v) for v in self.t]) if self.t is not None else None
        return xyz, quat, ts

    def build(self, mode="quat"):
        """facade-bound evo trajectory. mode 'quat': positions+quaternions;
        'se3': list of 4x4 pose matrices R(q) (registered rotations)"""
        T = S("evo.core.trajectory")
        xyz, quat, ts = self.arrays()
        if mode == "quat":
            if ts is None:
                return T.PosePath3D(xyz, quat)
            return T.PoseTrajectory3D(xyz, quat, ts)
        poses = self.poses()
        if ts is None:
            return T.PosePath3D(poses_se3=poses)
        return T.PoseTrajectory3D(poses_se3=poses, timestamps=ts)

    def poses(self):
        out = []
        for i in range(self.n):
            M = rnp.empty((4, 4), dtype=object)
            M[:3, :3] = symrot.new_rotation(self.q[i])
            M[:3, 3] = [SymReal(v) for v in self.p[i]]
            M[3, :] = [0, 0, 0, 1]
            out.append(M.view(symnp.SymArray))
        return out

    # replay-side -------------------------------------------------------------
    def concrete(self, vals, mode="quat", normalise=True):
        """real evo trajectory from witness values (dict name -> Fraction)"""
        T = R("evo.core.trajectory")
        xyz = rnp.array([[float(vals[str(v)]) for v in row] for row in self.p], dtype=float).reshape(self.n, 3)
        quat = rnp.array([[float(vals[str(v)]) for v in row] for row in self.q], dtype=float).reshape(self.n, 4)
        if normalise and self.unit_quat:
            nrm = rnp.linalg.norm(quat, axis=1)
            nrm[nrm == 0] = 1.0
            quat = quat / nrm[:, None]
        ts = rnp.array([float(vals[str(v)]) for v in self.t], dtype=float) if self.t is not None else None
        if mode == "quat":
            if ts is None:
                return T.PosePath3D(xyz.copy(), quat.copy())
            return T.PoseTrajectory3D(xyz.copy(), quat.copy(), ts.copy())
        poses = T.xyz_quat_wxyz_to_se3_poses(xyz, quat)
        if ts is None:
            return T.PosePath3D(poses_se3=poses)
        return T.PoseTrajectory3D(poses_se3=poses, timestamps=ts.copy())


def zR(q):
    """rotation matrix (list of lists of z3 terms) of a unit quaternion"""
    return symrot.quat_R(q)


def zmat_mul(A, B):
    n, m, k = len(A), len(B[0]), len(B)
    return [[sum(A[i][x] * B[x][j] for x in range(k)) for j in range(m)] for i in range(n)]


def zT(M):
    return [[M[j][i] for j in range(len(M))] for i in range(len(M[0]))]


def zmat_vec(A, v):
    return [sum(A[i][x] * v[x] for x in range(len(v))) for i in range(len(A))]


def zabs(x):
    return z3.If(x >= 0, x, -x)


def terms_of(arr):
    """flat list of z3 terms of a facade array / list"""
    out = []
    for v in rnp.asarray(arr, dtype=object).reshape(-1):
        out.append(toz(v))
    return out


def same_terms(a, b):
    """concrete check: two arrays hold syntactically identical terms"""
    A, B = rnp.asarray(a, dtype=object), rnp.asarray(b, dtype=object)
    if A.shape != B.shape:
        return False
    for x, y in zip(A.reshape(-1), B.reshape(-1)):
        if not toz(x).eq(toz(y)):
            return False
    return True


def band(x, scale=1.0):
    """don't-care band of the replay oracle"""
    return abs(x) < 1e-9 * max(1.0, abs(scale))


def fr(vals):
    return {k: (Fraction(v) if not isinstance(v, (bool, str)) else v) for k, v in vals.items()}


def pins_for(*trajs, n=2):
    """pin sets for cheap reachability witnesses: everything pinned, then only the
    quaternions (positions/stamps/thresholds stay free)"""
    out = []
    for k in range(n):
        out.append([e for t in trajs for e in t.pin(k)])
    for k in range(n):
        out.append([e for t in trajs for e in t.pin(k, only_quat=True)])
    return out


QUADS = [(1, 1, 1, 1, 2), (1, 2, 2, 4, 5), (1, 1, 3, 5, 6), (1, 3, 3, 9, 10), (2, 4, 5, 6, 9),
         (1, 4, 4, 4, 7), (3, 1, 1, 5, 6), (2, 3, 6, 0, 7), (4, 4, 7, 0, 9), (1, 2, 2, 0, 3)]


def pin_quats(quats, n=3):
    """pin sets fixing quaternion variables to rational unit quaternions"""
    import random
    out = []
    for k in range(n):
        rng = random.Random(k * 7919 + 13)
        eqs = []
        for q in quats:
            c = list(QUADS[rng.randrange(len(QUADS))])
            d = c.pop()
            rng.shuffle(c)
            c = [x * rng.choice((1, -1)) for x in c]
            eqs += [v == sc.q_of(Fraction(x, d)) for v, x in zip(q, c)]
        out.append(eqs)
    return out
