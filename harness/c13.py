"""C13 -- merging and tabulating results.

Real functions executed: result.merge_results, pandas_bridge.result_to_df,
pandas_bridge.load_results_as_dataframe, main_res.run (table part; real pandas
moves the symbolic cells as objects), with load_res_file fed from in-memory
results and save_df_as_table captured.
"""
import argparse
import itertools
from fractions import Fraction

import numpy as rnp
import z3

from evoverif import runner, symcore as sc, symnp, loader
from evoverif.symcore import SymReal, toz
from . import common

PROPERTY = "C13"
FUNCTIONS = ["evo.core.result.merge_results", "evo.core.result.Result.add_*", "evo.tools.pandas_bridge.result_to_df",
             "evo.tools.pandas_bridge.load_results_as_dataframe", "evo.main_res.run (table assembly)"]
BOUNDS = {"quick": "1..3 results, 2 statistics, 2 arrays of length 0..2, all key insertion orders, one differing key",
          "thorough": "1..4 results, arrays of length 0..3"}
STUBS = ["file_interface.load_res_file returns prepared in-memory results (archive I/O is C06)",
         "pandas_bridge.save_df_as_table captured (table content inspected as objects; to_csv formatting is pandas')"]
ASSUMPTIONS = ["pandas moves object cells without altering them (trusted)"]
OUTSIDE = ["excel/latex table formats", "plots of evo_res", "more results / longer arrays than the bound"]
MODS = ("evo.tools.pandas_bridge", "evo.main_res")


def worker_init():
    common.ensure_loaded(MODS)


def cases(tier, seed):
    out = []
    kmax = 3 if tier == "quick" else 4
    lens = [0, 1, 2] if tier == "quick" else [0, 1, 2, 3]
    # length configurations of two arrays (a, b) over K results
    for K in range(1, kmax + 1):
        cfgs = set()
        for la in itertools.product(lens, repeat=K):
            for lb in itertools.product(lens, repeat=K):
                # canonical reduction: keep a representative per equal/unequal pattern and some sizes
                cfgs.add((la, lb))
        cfgs = sorted(cfgs)
        if K >= 2:
            keep = []
            for la, lb in cfgs:
                ea, eb = len(set(la)) == 1, len(set(lb)) == 1
                if tier == "quick" and K == 3 and not (max(la) <= 2 and max(lb) <= 1):
                    continue
                keep.append((la, lb))
            cfgs = keep
        if K >= 3:
            import random
            rng = random.Random(seed * 1000 + K)
            eq = [c for c in cfgs if len(set(c[0])) == 1 and len(set(c[1])) == 1]
            ne = [c for c in cfgs if c not in eq]
            rng.shuffle(ne)
            cfgs = eq + ne[: (25 if tier == "quick" else 120)]
        out.append(dict(name="merge_K%d" % K, kind="merge", K=K, cfgs=[list(map(list, c)) for c in cfgs]))
    out.append(dict(name="merge_key_mismatch", kind="mismatch", K=2))
    out.append(dict(name="merge_key_mismatch_K3", kind="mismatch", K=3))
    out.append(dict(name="merge_bad_arguments", kind="badargs"))
    for K in ([1, 2, 3] if tier == "quick" else [1, 2, 3, 4]):
        for merge in (False, True):
            for usefn in (False, True):
                out.append(dict(name="table_K%d_%s_%s" % (K, "merge" if merge else "nomerge", "fn" if usefn else "est"),
                                kind="table", K=K, merge=merge, use_filenames=usefn))
    out.append(dict(name="table_duplicate_labels", kind="dup"))
    return out


STAT_KEYS = ["rmse", "mean"]
ARR_KEYS = ["error_array", "x"]


def make_results(Rm, K, lens_a, lens_b, orders, prefix="r", stat_orders=None):
    """facade-bound Result objects with symbolic contents.  orders[k]: insertion
    order of the array keys of result k"""
    results, inputs = [], {}
    for k in range(K):
        r = Rm.Result()
        r.add_info({"title": "T%d" % k, "est_name": "est%d" % k, "label": "APE (m)"})
        sk = STAT_KEYS if not stat_orders else stat_orders[k]
        st = {}
        for s in sk:
            v = z3.Real("%s%d_%s" % (prefix, k, s))
            inputs[str(v)] = v
            st[s] = SymReal(v)
        r.add_stats(st)
        arrs = {}
        for key, ln in (("error_array", lens_a[k]), ("x", lens_b[k])):
            vs = [z3.Real("%s%d_%s_%d" % (prefix, k, key, i)) for i in range(ln)]
            for v in vs:
                inputs[str(v)] = v
            arrs[key] = vs
        for key in orders[k]:
            r.add_np_array(key, symnp.array([SymReal(v) for v in arrs[key]]) if arrs[key] else symnp.zeros((0,)))
        results.append((r, st, arrs))
    return results, inputs


def concrete_results(Rr, vals, K, lens_a, lens_b, orders, prefix="r", stat_orders=None):
    out = []
    for k in range(K):
        r = Rr.Result()
        r.add_info({"title": "T%d" % k, "est_name": "est%d" % k, "label": "APE (m)"})
        sk = STAT_KEYS if not stat_orders else stat_orders[k]
        r.add_stats({s: float(vals["%s%d_%s" % (prefix, k, s)]) for s in sk})
        arrs = {"error_array": rnp.array([float(vals["%s%d_error_array_%d" % (prefix, k, i)]) for i in range(lens_a[k])], dtype=float),
                "x": rnp.array([float(vals["%s%d_x_%d" % (prefix, k, i)]) for i in range(lens_b[k])], dtype=float)}
        for key in orders[k]:
            r.add_np_array(key, arrs[key])
        out.append(r)
    return out


def merge_oracle(results_in, merged, K, lens):
    """concrete oracle on real Result objects; lens: key -> list of lengths"""
    bad = []
    if K == 1:
        if merged is not results_in[0]:
            bad.append("single result not returned unchanged")
        return bad
    for s in STAT_KEYS:
        exp = sum(r.stats[s] for r in results_in) / K
        if abs(merged.stats.get(s, float("nan")) - exp) > 1e-9 * max(1.0, abs(exp)) or merged.stats.get(s) is None:
            bad.append("stat %s = %r, expected mean %r" % (s, merged.stats.get(s), exp))
    all_equal = all(len(set(l)) == 1 for l in lens.values())
    for key, l in lens.items():
        got = merged.np_arrays.get(key)
        mean = None
        if len(set(l)) == 1:
            mean = sum(r.np_arrays[key] for r in results_in) / K
        cat = rnp.concatenate([r.np_arrays[key] for r in results_in])
        is_mean = mean is not None and got is not None and got.shape == mean.shape and rnp.allclose(got, mean, rtol=1e-12, atol=1e-12)
        is_cat = got is not None and got.shape == cat.shape and rnp.allclose(got, cat, rtol=0, atol=0)
        if all_equal:
            if not is_mean:
                bad.append("array %s: all lengths equal, expected element-wise mean %r, got %r" % (key, mean, got))
        elif len(set(l)) != 1:
            if not is_cat:
                bad.append("array %s: lengths differ, expected concatenation, got %r" % (key, got))
        else:
            if not (is_mean or is_cat):
                bad.append("array %s: neither mean nor concatenation: %r" % (key, got))
    if merged.info != results_in[0].info:
        bad.append("info is not the first result's info")
    return bad


def run_case(case, col):
    {"merge": run_merge, "mismatch": run_mismatch, "badargs": run_badargs, "table": run_table, "dup": run_dup}[case["kind"]](case, col)


def run_merge(case, col):
    K = case["K"]
    Rm = common.S("evo.core.result")
    perms = [list(p) for p in itertools.permutations(ARR_KEYS)]
    cfgs = case["cfgs"]
    # configuration index and key insertion orders are nondeterministic choices of the path
    for ci, (la, lb) in enumerate(cfgs):
        order_sets = list(itertools.product(range(len(perms)), repeat=K)) if K <= 3 else \
            [tuple([0] * K), tuple([1] * K), tuple([0] + [1] * (K - 1)), tuple([1] + [0] * (K - 1))]
        for oi in order_sets:
            orders = [perms[i] for i in oi]
            _merge_one(col, Rm, K, la, lb, orders, "K=%d lens a=%s b=%s orders=%s" % (K, la, lb, [o[0][0] for o in orders]))


def _merge_one(col, Rm, K, la, lb, orders, descr):
    state = {}

    def fn():
        rs, inputs = make_results(Rm, K, la, lb, orders)
        state["rs"], state["inputs"] = rs, inputs
        state["snap"] = [(dict(r.info), dict(r.stats), {k: v.copy() for k, v in r.np_arrays.items()},
                          list(r.np_arrays.keys()), list(r.stats.keys())) for r, _, _ in rs]
        return Rm.merge_results([r for r, _, _ in rs])

    def replay(vals):
        Rr = common.R("evo.core.result")
        rin = concrete_results(Rr, vals, K, la, lb, orders)
        import copy
        snap = copy.deepcopy(rin)
        try:
            merged = Rr.merge_results(rin)
        except Exception as e:       # noqa: BLE001
            return True, "merge_results raised %s: %s" % (type(e).__name__, e)
        bad = merge_oracle(rin, merged, K, {"error_array": la, "x": lb})
        for a, b in zip(rin, snap):
            if a.stats != b.stats or a.info != b.info or list(a.np_arrays) != list(b.np_arrays) or \
                    any(not rnp.array_equal(a.np_arrays[k], b.np_arrays[k]) for k in a.np_arrays):
                bad.append("an input result was modified")
        return bool(bad), "; ".join(bad) or "ok"

    def on_ok(pr):
        merged = pr.out
        rs, inputs = state["rs"], state["inputs"]
        g = {}
        if K == 1:
            g["single_result_returned_unchanged"] = z3.BoolVal(merged is rs[0][0])
        else:
            g["result_is_new_object"] = z3.BoolVal(all(merged is not r for r, _, _ in rs))
            g["stats_keys"] = z3.BoolVal(sorted(merged.stats) == sorted(STAT_KEYS))
            if sorted(merged.stats) == sorted(STAT_KEYS):
                g["stats_are_means"] = z3.And([toz(merged.stats[s]) == sum(toz(st[s]) for _, st, _ in rs) / K
                                               for s in STAT_KEYS])
            lens = {"error_array": la, "x": lb}
            all_equal = all(len(set(l)) == 1 for l in lens.values())
            g["array_keys"] = z3.BoolVal(sorted(merged.np_arrays) == sorted(ARR_KEYS))
            for key in ARR_KEYS:
                got = merged.np_arrays.get(key)
                if got is None:
                    continue
                l = lens[key]
                cat = [v for _, _, arrs in rs for v in arrs[key]]
                f_cat = z3.And([toz(got[i]) == cat[i] for i in range(len(cat))]) if len(got) == len(cat) else z3.BoolVal(False)
                if len(set(l)) == 1:
                    f_mean = z3.And([toz(got[i]) == sum(arrs[key][i] for _, _, arrs in rs) / K for i in range(l[0])]) \
                        if len(got) == l[0] else z3.BoolVal(False)
                else:
                    f_mean = z3.BoolVal(False)
                if all_equal:
                    g["array_%s_elementwise_mean" % key] = f_mean
                elif len(set(l)) != 1:
                    g["array_%s_concatenated_in_input_order" % key] = f_cat
                else:
                    g["array_%s_mean_or_concatenation" % key] = z3.Or(f_mean, f_cat)
            g["info_of_first_result"] = z3.BoolVal(merged.info == state["snap"][0][0])
        unmod = True
        for (r, _, _), (info, stats, arrs, akeys, skeys) in zip(rs, state["snap"]):
            unmod &= r.info == info and list(r.np_arrays.keys()) == akeys and list(r.stats.keys()) == skeys
            unmod &= all(common.same_terms([r.stats[k]], [stats[k]]) for k in skeys)
            unmod &= all(common.same_terms(r.np_arrays[k], arrs[k]) for k in akeys)
        g["inputs_unmodified"] = z3.BoolVal(bool(unmod))
        runner.check_obligations(col, pr.ctx, g, inputs, replay, descr=descr)

    def on_exc(pr):
        # equal key sets: merging must succeed
        runner.check_obligations(col, pr.ctx, {"merge_of_results_with_equal_key_sets_succeeds": z3.BoolVal(False)},
                                 state["inputs"], replay, descr=descr + " raised " + pr.status)

    runner.explore_case(col, fn, [], on_ok, on_exc)


def run_mismatch(case, col):
    """key sets differing in one key (stats or arrays), in any position: refused"""
    K = case["K"]
    Rm = common.S("evo.core.result")
    variants = []
    for which in ("stats", "np_arrays"):
        for pos in range(K):
            for how in ("extra", "missing", "renamed"):
                variants.append((which, pos, how))

    for which, pos, how in variants:
        def fn(which=which, pos=pos, how=how):
            rs, inputs = make_results(Rm, K, [1] * K, [1] * K, [ARR_KEYS] * K)
            tgt = rs[pos][0]
            d = tgt.stats if which == "stats" else tgt.np_arrays
            first = list(d)[0]
            if how == "extra":
                d["zzz"] = d[first]
            elif how == "missing":
                del d[first]
            else:
                d["zzz"] = d.pop(first)
            return Rm.merge_results([r for r, _, _ in rs])

        def on_ok(pr, which=which, pos=pos, how=how):
            runner.check_obligations(col, pr.ctx, {"refused_%s_%s_at_%d" % (which, how, pos): z3.BoolVal(False)}, {},
                                     lambda v: mismatch_replay(K, which, pos, how), descr="mismatch")

        def on_exc(pr, which=which, pos=pos, how=how):
            ok = pr.status == "exc:ResultException"
            runner.check_obligations(col, pr.ctx, {"refused_%s_%s_at_%d" % (which, how, pos): z3.BoolVal(ok)}, {},
                                     lambda v: mismatch_replay(K, which, pos, how), descr="mismatch")
        runner.explore_case(col, fn, [], on_ok, on_exc)


def mismatch_replay(K, which, pos, how):
    Rr = common.R("evo.core.result")
    vals = {}
    for k in range(K):
        for s in STAT_KEYS:
            vals["r%d_%s" % (k, s)] = 1.0 + k
        vals["r%d_error_array_0" % k] = 2.0
        vals["r%d_x_0" % k] = 3.0
    rs = concrete_results(Rr, vals, K, [1] * K, [1] * K, [ARR_KEYS] * K)
    d = rs[pos].stats if which == "stats" else rs[pos].np_arrays
    first = list(d)[0]
    if how == "extra":
        d["zzz"] = d[first]
    elif how == "missing":
        del d[first]
    else:
        d["zzz"] = d.pop(first)
    try:
        Rr.merge_results(rs)
    except Rr.ResultException:
        return False, "refused"
    except Exception as e:       # noqa: BLE001
        return True, "wrong exception %s" % type(e).__name__
    return True, "results with different %s keys (%s at position %d) were merged" % (which, how, pos)


def run_badargs(case, col):
    Rm = common.S("evo.core.result")
    for arg in ("empty", "nonresult"):
        def fn(arg=arg):
            return Rm.merge_results([] if arg == "empty" else [Rm.Result(), "x"])

        def on_ok(pr, arg=arg):
            runner.check_obligations(col, pr.ctx, {"refused_" + arg: z3.BoolVal(False)}, {}, lambda v: (True, "accepted"))

        def on_exc(pr, arg=arg):
            runner.check_obligations(col, pr.ctx, {"refused_" + arg: z3.BoolVal(pr.status == "exc:ValueError")}, {},
                                     lambda v: (True, "wrong exception"))
        runner.explore_case(col, fn, [], on_ok, on_exc)


# --------------------------------------------------------------------------
# evo_res table
# --------------------------------------------------------------------------
def res_args(files, merge, use_filenames, table="out.csv"):
    return argparse.Namespace(result_files=files, merge=merge, use_rel_time=False, use_filenames=use_filenames,
                              ignore_title=True, plot=False, plot_markers=False, save_plot=None, serialize_plot=None,
                              save_table=table, logfile=None, no_warnings=True, verbose=False, silent=True,
                              debug=False, config=None)


def run_table(case, col):
    K, merge, usefn = case["K"], case["merge"], case["use_filenames"]
    PB = common.S("evo.tools.pandas_bridge")
    MR = common.S("evo.main_res")
    FI = common.S("evo.tools.file_interface")
    Rm = common.S("evo.core.result")
    files = ["/data/res_%d.zip" % k for k in range(K)]
    state = {}

    def build():
        rs = []
        inputs = {}
        for k in range(K):
            r = Rm.Result()
            r.add_info({"title": "APE w.r.t. translation part (m)", "est_name": "/somewhere/est%d.txt" % k,
                        "ref_name": "ref.txt", "label": "APE (m)"})
            st = {}
            for s in ["rmse", "mean", "median", "std", "min", "max", "sse"]:
                v = z3.Real("f%d_%s" % (k, s))
                inputs[str(v)] = v
                st[s] = SymReal(v)
            r.add_stats(st)
            n = 3
            r.add_np_array("error_array", rnp.arange(n, dtype=float) + 10 * k)
            r.add_np_array("timestamps", rnp.arange(n, dtype=float) + 100.0)
            r.add_np_array("seconds_from_start", rnp.arange(n, dtype=float))
            rs.append((r, st))
        return rs, inputs

    def fn():
        rs, inputs = build()
        state["rs"], state["inputs"] = rs, inputs
        byfile = {f: r for f, (r, _) in zip(files, rs)}
        captured = []
        FI.load_res_file = lambda f, load_trajectories=False: byfile[f]
        PB.save_df_as_table = lambda data, path, **k: captured.append((data, path, k))
        with loader.activate():
            MR.run(res_args(files, merge, usefn))
        return captured

    def replay(vals):
        return table_replay(vals, K, merge, usefn)

    def on_ok(pr):
        cap = pr.out
        rs, inputs = state["rs"], state["inputs"]
        g = {}
        g["table_saved_once"] = z3.BoolVal(len(cap) == 1 and cap[0][1] == "out.csv"
                                           and cap[0][2].get("confirm_overwrite") is False)
        if len(cap) == 1:
            data = cap[0][0]
            names = ["rmse", "mean", "median", "std", "min", "max", "sse"]
            if merge and K > 1:
                labels = ["est0.txt"]           # info of the first result
            elif usefn:
                labels = files
            else:
                labels = ["est%d.txt" % k for k in range(K)]
            if merge and usefn and K >= 1:
                labels = ["est0.txt"]
            if merge and K == 1:
                labels = ["est0.txt"]
            cols = list(data.columns)
            # rows that are empty (NaN) in every column carry no content (pandas >= 2.1 keeps them in stack())
            data = data.dropna(how="all")
            g["one_column_per_result_with_its_label"] = z3.BoolVal(cols == labels)
            g["exactly_the_statistics"] = z3.BoolVal(sorted(data.index) == sorted(names))
            if cols == labels and sorted(data.index) == sorted(names):
                eqs = []
                for ci, lab in enumerate(labels):
                    for s in names:
                        cell = data.loc[s, lab]
                        if merge:
                            exp = sum(toz(st[s]) for _, st in rs) / K
                        else:
                            exp = toz(rs[ci][1][s])
                        eqs.append(toz(cell) == exp)
                g["cells_are_the_files_statistics" if not merge else "cells_are_the_merged_statistics"] = z3.And(eqs)
        runner.check_obligations(col, pr.ctx, g, inputs, replay, descr="evo_res table K=%d merge=%s fn=%s" % (K, merge, usefn))

    runner.explore_case(col, fn, [], on_ok, None)


def table_replay(vals, K, merge, usefn):
    """real evo_res on real result files written with the real save_res_file"""
    import tempfile, os, shutil, csv
    FIr = common.R("evo.tools.file_interface")
    Rr = common.R("evo.core.result")
    MRr = common.R("evo.main_res")
    d = tempfile.mkdtemp(prefix="evoverif_c13_")
    try:
        files = []
        names = ["rmse", "mean", "median", "std", "min", "max", "sse"]
        for k in range(K):
            r = Rr.Result()
            r.add_info({"title": "APE w.r.t. translation part (m)", "est_name": "/somewhere/est%d.txt" % k,
                        "ref_name": "ref.txt", "label": "APE (m)"})
            r.add_stats({s: float(vals["f%d_%s" % (k, s)]) for s in names})
            r.add_np_array("error_array", rnp.arange(3, dtype=float) + 10 * k)
            r.add_np_array("timestamps", rnp.arange(3, dtype=float) + 100.0)
            r.add_np_array("seconds_from_start", rnp.arange(3, dtype=float))
            f = os.path.join(d, "res_%d.zip" % k)
            FIr.save_res_file(f, r)
            files.append(f)
        table = os.path.join(d, "out.csv")
        MRr.run(res_args(files, merge, usefn, table))
        import pandas as pd
        t = pd.read_csv(table, index_col=0)
        from evo.tools.settings import SETTINGS
        if SETTINGS.table_export_transpose:
            t = t.T
        bad = []
        labels = ["est0.txt"] if merge else (files if usefn else ["est%d.txt" % k for k in range(K)])
        t = t.dropna(how="all")
        if sorted(t.index) != sorted(names):
            bad.append("rows %r expected exactly the statistics" % (list(t.index),))
        if list(t.columns) != labels:
            bad.append("columns %r expected %r" % (list(t.columns), labels))
        else:
            for ci, lab in enumerate(labels):
                for s in names:
                    exp = sum(float(vals["f%d_%s" % (k, s)]) for k in range(K)) / K if merge else float(vals["f%d_%s" % (ci, s)])
                    if s not in t.index or abs(float(t.loc[s, lab]) - exp) > 1e-9 * max(1.0, abs(exp)):
                        bad.append("cell (%s,%s) = %r expected %r" % (s, lab, t.loc[s, lab] if s in t.index else None, exp))
        return bool(bad), "; ".join(bad[:4]) or "ok"
    finally:
        shutil.rmtree(d, ignore_errors=True)


def run_dup(case, col):
    """two result files with the same estimate name: evo_res refuses (exit) unless file names are used"""
    PB = common.S("evo.tools.pandas_bridge")
    MR = common.S("evo.main_res")
    FI = common.S("evo.tools.file_interface")
    Rm = common.S("evo.core.result")

    def fn():
        rs = []
        for k in range(2):
            r = Rm.Result()
            r.add_info({"title": "t", "est_name": "same.txt", "label": "APE (m)"})
            r.add_stats({"rmse": SymReal(z3.Real("d%d" % k))})
            r.add_np_array("error_array", rnp.arange(2, dtype=float))
            rs.append(r)
        files = ["a.zip", "b.zip"]
        byfile = dict(zip(files, rs))
        cap = []
        FI.load_res_file = lambda f, load_trajectories=False: byfile[f]
        PB.save_df_as_table = lambda data, path, **k: cap.append(data)
        try:
            with loader.activate():
                MR.run(res_args(files, False, False))
            return ("saved", cap)
        except SystemExit as e:
            return ("exit", e.code)

    def on_ok(pr):
        kind, x = pr.out
        runner.check_obligations(col, pr.ctx, dict(duplicate_labels_refused=z3.BoolVal(kind == "exit" and x == 1)),
                                 {}, lambda v: (True, "a table with two columns of the same label was produced"))
    runner.explore_case(col, fn, [], on_ok, None)


def replay_file(rec):
    return False, "re-run ./check C13 (witness embedded in the record)"
