"""C20 -- plots draw the trajectory's own coordinates on the labelled axes.

evo.tools.plot is loaded from /repo onto the numpy facade; matplotlib artists are *recording* stubs (Axes with
plot / scatter / add_collection / labels, LineCollection / Line3DCollection capture, colour mapper stub).  For each
plot mode and symbolic trajectories the data handed to the artists are compared term by term with the
trajectory's coordinates of the axes named by the mode.
"""
import types
from fractions import Fraction

import numpy as rnp
import z3

from evoverif import runner, symcore as sc, symnp, symrot, stubs
from evoverif.symcore import SymReal, toz
from . import common
from .common import SymTraj, zR

PROPERTY = "C20"
FUNCTIONS = ["plot.plot_mode_to_idx", "prepare_axis", "traj", "add_start_end_markers", "colored_line_collection", "traj_colormap",
             "draw_coordinate_axes", "draw_correspondence_edges", "traj_xyz", "traj_rpy", "speeds", "error_array", "trajectories"]
BOUNDS = {"quick": "N <= 3 poses; 7 plot modes x 4 length units x with / without timestamps x with / without start time",
          "thorough": "N <= 4"}
STUBS = ["matplotlib Axes / Figure / LineCollection / Line3DCollection / ScalarMappable / Normalize / pyplot: recording stubs",
         "seaborn.color_palette: real", "atan2 angle objects for roll/pitch/yaw"]
ASSUMPTIONS = ["what matplotlib renders from the recorded artists is matplotlib's business"]
OUTSIDE = ["rendering", "colormap values", "ros_map / map_tile", "evo_res plots (pandas plotting)"]
MODS = ("evo.tools.plot",)

MODES = {"xy": (0, 1, None), "xz": (0, 2, None), "yx": (1, 0, None), "yz": (1, 2, None), "zx": (2, 0, None), "zy": (2, 1, None),
         "xyz": (0, 1, 2)}
AX = "xyz"


class RecAxis:
    def __init__(self):
        self.formatter = None

    def set_major_formatter(self, f):
        self.formatter = f


class RecAxes:
    """recording stand-in for matplotlib Axes / Axes3D"""

    def __init__(self, three_d=False):
        self.three_d = three_d
        self.calls = []
        self.labels = {}
        self.xaxis, self.yaxis, self.zaxis = RecAxis(), RecAxis(), RecAxis()
        self.title = None

    def plot(self, *a, **k):
        self.calls.append(("plot", a, k))
        return [object()]

    def scatter(self, *a, **k):
        self.calls.append(("scatter", a, k))

    def add_collection(self, c):
        self.calls.append(("collection", (c,), {}))

    def axhline(self, **k):
        self.calls.append(("axhline", (), k))

    def axhspan(self, *a, **k):
        self.calls.append(("axhspan", a, k))

    def set_xlabel(self, s):
        self.labels["x"] = s

    def set_ylabel(self, s):
        self.labels["y"] = s

    def set_zlabel(self, s):
        self.labels["z"] = s

    def set_title(self, s):
        self.title = s

    def legend(self, *a, **k):
        pass

    def autoscale_view(self, *a, **k):
        pass

    def set_zlim(self, *a):
        pass

    def set_box_aspect(self, *a, **k):
        pass

    def set_axis_off(self):
        pass


class RecAxes3D(RecAxes):
    def __init__(self):
        RecAxes.__init__(self, True)


class RecFig:
    def __init__(self):
        self.axes_made = []

    def add_subplot(self, arg, projection=None):
        ax = RecAxes3D() if projection == "3d" else RecAxes()
        self.axes_made.append(ax)
        return ax

    def colorbar(self, mapper, ticks=None, ax=None):
        cb = types.SimpleNamespace()
        cb.ticks = ticks
        cb.ax = types.SimpleNamespace(set_yticklabels=lambda labels: None)
        return cb


class RecLC:
    def __init__(self, segs, colors=None, alpha=None, linestyle=None, linestyles=None, **k):
        self.segs, self.colors = segs, colors


class RecLC3(RecLC):
    pass


class Mapper:
    def __init__(self, norm=None, cmap=None):
        self.norm = norm

    def set_array(self, a):
        self.array = a

    def to_rgba(self, a):
        return ("rgba", a)


PLT_CALLS = []


def worker_init(mods=None):
    common.ensure_loaded(mods or MODS)
    P = common.S("evo.tools.plot")
    P.LineCollection = RecLC
    P.art3d = types.SimpleNamespace(Line3DCollection=RecLC3, LineCollection=RecLC3)
    P.Axes3D = RecAxes3D
    P.Axes = RecAxes
    P.cm = types.SimpleNamespace(ScalarMappable=Mapper)
    P.mpl = types.SimpleNamespace(colors=types.SimpleNamespace(Normalize=lambda vmin=None, vmax=None, clip=False: ("norm", vmin, vmax)),
                                  figure=types.SimpleNamespace(Figure=RecFig))
    P.plt = types.SimpleNamespace(gcf=lambda: RecFig(), gca=lambda: RecAxes(),
                                  ylabel=lambda s: PLT_CALLS.append(("ylabel", s)), xlabel=lambda s: PLT_CALLS.append(("xlabel", s)),
                                  title=lambda s: PLT_CALLS.append(("title", s)), legend=lambda **k: None)
    for k, v in dict(plot_xyz_realistic=False, plot_show_legend=False, plot_invert_xaxis=False, plot_invert_yaxis=False, plot_show_axis=True,
                     plot_usetex=False, plot_multi_cmap="none", euler_angle_sequence="sxyz").items():
        P.SETTINGS[k] = v


def cases(tier, seed):
    out = [dict(name="rotation_lemmas", kind="lemmas")]
    n = 3 if tier == "quick" else 4
    for mode in MODES:
        out.append(dict(name="traj_and_markers_%s" % mode, kind="traj", mode=mode, n=n))
        out.append(dict(name="colormap_%s" % mode, kind="colormap", mode=mode, n=n))
        out.append(dict(name="coordinate_axes_%s" % mode, kind="frames", mode=mode, n=2))
        out.append(dict(name="correspondence_edges_%s" % mode, kind="edges", mode=mode, n=2))
        out.append(dict(name="axis_labels_%s" % mode, kind="labels", mode=mode))
    for stamped in (True, False):
        for start in (False, True):
            if not stamped and start:
                continue
            out.append(dict(name="traj_xyz_%s_%s" % ("stamps" if stamped else "index", "start" if start else "nostart"), kind="xyz",
                            stamped=stamped, start=start, n=n))
            out.append(dict(name="traj_rpy_%s_%s" % ("stamps" if stamped else "index", "start" if start else "nostart"), kind="rpy",
                            stamped=stamped, start=start, n=2))
    out.append(dict(name="speeds", kind="speeds", n=n, start=False))
    out.append(dict(name="speeds_start", kind="speeds", n=n, start=True))
    out.append(dict(name="error_array", kind="errarr", n=3))
    out.append(dict(name="trajectories_dict", kind="multi", n=2))
    return out


def run_case(case, col):
    if case["kind"] == "lemmas":
        from evoverif import lemmas
        return lemmas.lemma_case(col)
    globals()["run_" + case["kind"]](case, col)


def P():
    return common.S("evo.tools.plot")


def col_terms(Tj, idx):
    return [SymReal(Tj.p[i][idx]) for i in range(Tj.n)]


def eq_seq(got, exp):
    g = list(rnp.asarray(got, dtype=object).reshape(-1))
    if len(g) != len(exp):
        return z3.BoolVal(False)
    return z3.And([sc.eq_goal(a, b) for a, b in zip(g, exp)]) if g else z3.BoolVal(True)


def real_plot_env():
    """the replay draws with real matplotlib (Agg) and reads the artists back"""
    import matplotlib
    matplotlib.use("Agg")
    import matplotlib.pyplot as plt
    Pr = common.R("evo.tools.plot")
    Pr.SETTINGS["plot_xyz_realistic"] = False
    return Pr, plt


def generic_replay(draw, check):
    """draw(Pr, plt, vals) -> objects; check(objects) -> list of problems"""
    def replay(vals):
        Pr, plt = real_plot_env()
        try:
            bad = check(*draw(Pr, plt, vals))
        finally:
            plt.close("all")
        return bool(bad), "; ".join(bad[:3]) or "ok"
    return replay


def line_xy(line, three_d=False):
    if three_d:
        x, y, z = line._verts3d
        return [rnp.asarray(x), rnp.asarray(y), rnp.asarray(z)]
    return [rnp.asarray(line.get_xdata()), rnp.asarray(line.get_ydata())]


def run_traj(case, col):
    mode, n = case["mode"], case["n"]
    xi, yi, zi = MODES[mode]
    Tj = SymTraj("a", n)

    def fn():
        ax = RecAxes3D() if mode == "xyz" else RecAxes()
        t = Tj.build("quat")
        P().traj(ax, P().PlotMode[mode], t, plot_start_end_markers=True)
        return ax

    def draw(Pr, plt, vals):
        fig = plt.figure()
        ax = Pr.prepare_axis(fig, Pr.PlotMode[mode])
        t = Tj.concrete(vals)
        Pr.traj(ax, Pr.PlotMode[mode], t, plot_start_end_markers=True)
        return ax, t

    def check(ax, t):
        bad = []
        data = line_xy(ax.lines[0], mode == "xyz")
        for k, idx in enumerate([i for i in (xi, yi, zi) if i is not None]):
            if not rnp.allclose(data[k], t.positions_xyz[:, idx], atol=0, rtol=0):
                bad.append("line %s-data is not the trajectory's %s coordinate in pose order" % ("xyz"[k], AX[idx]))
        return bad

    def on_ok(pr):
        ax = pr.out
        plots = [c for c in ax.calls if c[0] == "plot"]
        sc_ = [c for c in ax.calls if c[0] == "scatter"]
        g = {"one_line": z3.BoolVal(len(plots) == 1), "two_markers": z3.BoolVal(len(sc_) == 2)}
        if len(plots) == 1:
            a = plots[0][1]
            idxs = [i for i in (xi, yi, zi) if i is not None]
            g["line_draws_the_mode_axes_in_pose_order"] = z3.And([eq_seq(a[k], col_terms(Tj, idx)) for k, idx in enumerate(idxs)]) \
                if len(a) >= len(idxs) else z3.BoolVal(False)
        if len(sc_) == 2:
            idxs = [i for i in (xi, yi, zi) if i is not None]
            g["start_marker_at_first_pose"] = z3.And([sc.eq_goal(sc_[0][1][k], SymReal(Tj.p[0][idx])) for k, idx in enumerate(idxs)]) \
                if len(sc_[0][1]) == len(idxs) else z3.BoolVal(False)
            g["end_marker_at_last_pose"] = z3.And([sc.eq_goal(sc_[1][1][k], SymReal(Tj.p[n - 1][idx])) for k, idx in enumerate(idxs)]) \
                if len(sc_[1][1]) == len(idxs) else z3.BoolVal(False)
        runner.check_obligations(col, pr.ctx, g, Tj.inputs(), generic_replay(draw, check), descr=case["name"])
    runner.explore_case(col, fn, Tj.assumptions(), on_ok, None, pins=common.pins_for(Tj, n=1), must_reach=("ok",))


def seg_goal(segs, pts_a, pts_b, idxs):
    """segments k connect pts_a[k] -> pts_b[k] in the axes idxs"""
    if len(segs) != len(pts_a):
        return z3.BoolVal(False)
    eqs = []
    for s, a, b in zip(segs, pts_a, pts_b):
        s = list(s)
        if len(s) != 2 or len(s[0]) != len(idxs):
            return z3.BoolVal(False)
        for k, idx in enumerate(idxs):
            eqs.append(sc.eq_goal(s[0][k], a[idx]))
            eqs.append(sc.eq_goal(s[1][k], b[idx]))
    return z3.And(eqs) if eqs else z3.BoolVal(True)


def run_colormap(case, col):
    mode, n = case["mode"], case["n"]
    xi, yi, zi = MODES[mode]
    idxs = [i for i in (xi, yi, zi) if i is not None]
    Tj = SymTraj("a", n)
    ev = [z3.Real("err%d" % i) for i in range(n - 1)]
    inputs = dict(Tj.inputs(), **{str(v): v for v in ev})

    def fn():
        ax = RecAxes3D() if mode == "xyz" else RecAxes()
        t = Tj.build("quat")
        P().traj_colormap(ax, t, symnp.array([SymReal(v) for v in ev]), P().PlotMode[mode], 0, 1, fig=RecFig(), plot_start_end_markers=True)
        return ax

    def draw(Pr, plt, vals):
        fig = plt.figure()
        ax = Pr.prepare_axis(fig, Pr.PlotMode[mode])
        t = Tj.concrete(vals)
        Pr.traj_colormap(ax, t, rnp.array([abs(float(vals[str(v)])) for v in ev]), Pr.PlotMode[mode], 0.0, 1.0, fig=fig)
        return ax, t

    def check(ax, t):
        c = ax.collections[0]
        segs = c._segments3d if mode == "xyz" else c.get_segments()
        bad = []
        P3 = t.positions_xyz
        if len(segs) != t.num_poses - 1:
            return ["%d colour segments for %d poses" % (len(segs), t.num_poses)]
        for k, s in enumerate(segs):
            s = rnp.asarray(s)
            if not (rnp.array_equal(s[0], P3[k][idxs]) and rnp.array_equal(s[1], P3[k + 1][idxs])):
                bad.append("colour segment %d does not connect pose %d and %d in the mode's axes" % (k, k, k + 1))
        return bad

    def on_ok(pr):
        ax = pr.out
        cols = [c[1][0] for c in ax.calls if c[0] == "collection"]
        g = {"one_collection": z3.BoolVal(len(cols) == 1)}
        if len(cols) == 1:
            pts = [[SymReal(v) for v in Tj.p[i]] for i in range(n)]
            g["segments_connect_consecutive_poses_in_the_mode_axes"] = seg_goal(cols[0].segs, pts[:-1], pts[1:], idxs)
            g["one_colour_per_segment_from_the_error_values"] = z3.BoolVal(
                len(cols[0].colors) == n - 1 and all(c[0] == "rgba" and toz(c[1]).eq(ev[k]) for k, c in enumerate(cols[0].colors)))
            g["collection_kind_matches_mode"] = z3.BoolVal(isinstance(cols[0], RecLC3) == (mode == "xyz"))
        runner.check_obligations(col, pr.ctx, g, inputs, generic_replay(draw, check), descr=case["name"])
    runner.explore_case(col, fn, Tj.assumptions(), on_ok, None, pins=common.pins_for(Tj, n=1), must_reach=("ok",))


def run_frames(case, col):
    mode, n = case["mode"], case["n"]
    xi, yi, zi = MODES[mode]
    idxs = [i for i in (xi, yi, zi) if i is not None]
    Tj = SymTraj("a", n, stamps=False)
    zs = z3.Real("marker_scale")
    inputs = dict(Tj.inputs(), marker_scale=zs)

    def fn():
        ax = RecAxes3D() if mode == "xyz" else RecAxes()
        P().draw_coordinate_axes(ax, Tj.build("se3"), P().PlotMode[mode], SymReal(zs))
        return ax

    def draw(Pr, plt, vals):
        fig = plt.figure()
        ax = Pr.prepare_axis(fig, Pr.PlotMode[mode])
        t = Tj.concrete(vals, "se3")
        Pr.draw_coordinate_axes(ax, t, Pr.PlotMode[mode], float(vals["marker_scale"]))
        return ax, t, float(vals["marker_scale"])

    def check(ax, t, s):
        c = ax.collections[0]
        segs = c._segments3d if mode == "xyz" else c.get_segments()
        bad = []
        k = 0
        for axis in range(3):
            for i in range(t.num_poses):
                Pm = t.poses_se3[i]
                a, b = Pm[:3, 3], Pm[:3, 3] + s * Pm[:3, axis]
                sg = rnp.asarray(segs[k])
                if not (rnp.allclose(sg[0], a[idxs], atol=1e-9) and rnp.allclose(sg[1], b[idxs], atol=1e-9)):
                    bad.append("frame marker %s of pose %d does not start at the pose / point along its own axis" % (AX[axis], i))
                k += 1
        return bad

    def on_ok(pr):
        ax = pr.out
        cols = [c[1][0] for c in ax.calls if c[0] == "collection"]
        g = {"one_collection": z3.BoolVal(len(cols) == 1)}
        if len(cols) == 1:
            starts, ends = [], []
            for axis in range(3):
                for i in range(n):
                    Rz = zR(Tj.q[i])
                    p = [SymReal(v) for v in Tj.p[i]]
                    starts.append(p)
                    ends.append([sc.mk(z3.simplify(Tj.p[i][a] + zs * Rz[a][axis])) for a in range(3)])
            g["markers_start_at_the_poses_and_point_along_the_pose_axes"] = seg_goal(cols[0].segs, starts, ends, idxs)
            g["colours_red_green_blue_per_axis"] = z3.BoolVal(list(cols[0].colors) == n * ["r"] + n * ["g"] + n * ["b"])
        runner.check_obligations(col, pr.ctx, g, inputs, generic_replay(draw, check), descr=case["name"])
    runner.explore_case(col, fn, Tj.assumptions() + [zs > 0], on_ok, None, pins=common.pins_for(Tj, n=1), must_reach=("ok",))


def run_edges(case, col):
    mode, n = case["mode"], case["n"]
    xi, yi, zi = MODES[mode]
    idxs = [i for i in (xi, yi, zi) if i is not None]
    A, B = SymTraj("a", n, stamps=False), SymTraj("b", n, stamps=False)
    inputs = dict(A.inputs(), **B.inputs())

    def fn():
        ax = RecAxes3D() if mode == "xyz" else RecAxes()
        P().draw_correspondence_edges(ax, A.build("quat"), B.build("quat"), P().PlotMode[mode])
        return ax

    def draw(Pr, plt, vals):
        fig = plt.figure()
        ax = Pr.prepare_axis(fig, Pr.PlotMode[mode])
        a, b = A.concrete(vals), B.concrete(vals)
        Pr.draw_correspondence_edges(ax, a, b, Pr.PlotMode[mode])
        return ax, a, b

    def check(ax, a, b):
        c = ax.collections[0]
        segs = c._segments3d if mode == "xyz" else c.get_segments()
        bad = []
        for i in range(a.num_poses):
            sg = rnp.asarray(segs[i])
            if not (rnp.array_equal(sg[0], a.positions_xyz[i][idxs]) and rnp.array_equal(sg[1], b.positions_xyz[i][idxs])):
                bad.append("edge %d does not connect the corresponding poses" % i)
        return bad

    def on_ok(pr):
        cols = [c[1][0] for c in pr.out.calls if c[0] == "collection"]
        g = {"one_collection": z3.BoolVal(len(cols) == 1)}
        if len(cols) == 1:
            pa = [[SymReal(v) for v in A.p[i]] for i in range(n)]
            pb = [[SymReal(v) for v in B.p[i]] for i in range(n)]
            g["edges_connect_corresponding_poses"] = seg_goal(cols[0].segs, pa, pb, idxs)
        runner.check_obligations(col, pr.ctx, g, inputs, generic_replay(draw, check), descr=case["name"])
    runner.explore_case(col, fn, A.assumptions() + B.assumptions(), on_ok, None, pins=common.pins_for(A, B, n=1), must_reach=("ok",))


def run_labels(case, col):
    mode = case["mode"]
    xi, yi, zi = MODES[mode]
    U = common.S("evo.core.units")

    def fn():
        c = sc.ctx()
        unit = ["millimeters", "centimeters", "meters", "kilometers"][c.choose(4, "unit")]
        fig = RecFig()
        ax = P().prepare_axis(fig, P().PlotMode[mode], length_unit=U.Unit[unit])
        return ax, unit, P().plot_mode_to_idx(P().PlotMode[mode])

    def on_ok(pr):
        ax, unit, idx = pr.out
        uv = U.Unit[unit].value
        exp = {"x": "$%s$ (%s)" % (AX[xi], uv), "y": "$%s$ (%s)" % (AX[yi], uv)}
        if zi is not None:
            exp["z"] = "$z$ (%s)" % uv
        ok = ax.labels == exp and idx == (xi, yi, zi) and isinstance(ax, RecAxes3D) == (mode == "xyz")
        fmt_ok = (unit == "meters") == (ax.xaxis.formatter is None)
        runner.check_obligations(col, pr.ctx, {"labels_name_the_mode_axes_and_unit": z3.BoolVal(ok), "tick_formatter_only_for_non_meter_units": z3.BoolVal(fmt_ok)},
                                 {}, lambda v: (not (ok and fmt_ok), "labels %r for mode %s unit %s" % (ax.labels, mode, unit)), descr=case["name"])
    runner.explore_case(col, fn, [], on_ok, None)


def run_xyz(case, col):
    n, stamped, start = case["n"], case["stamped"], case["start"]
    Tj = SymTraj("a", n, stamps=stamped)
    z0 = z3.Real("start_timestamp")
    inputs = dict(Tj.inputs(), start_timestamp=z0)

    def fn():
        axarr = [RecAxes() for _ in range(3)]
        P().traj_xyz(axarr, Tj.build("quat"), start_timestamp=SymReal(z0) if start else None)
        return axarr

    def draw(Pr, plt, vals):
        fig, axarr = plt.subplots(3)
        t = Tj.concrete(vals)
        s = float(vals["start_timestamp"])
        Pr.traj_xyz(axarr, t, start_timestamp=s if start else None)
        return axarr, t, s

    def check(axarr, t, s):
        bad = []
        for i in range(3):
            x, y = line_xy(axarr[i].lines[0])
            expx = (t.timestamps - s if (start and s) else t.timestamps) if stamped else rnp.arange(t.num_poses, dtype=float)
            if not rnp.allclose(x, expx, atol=1e-12) or not rnp.array_equal(y, t.positions_xyz[:, i]):
                bad.append("subplot %d does not show %s against %s" % (i, AX[i], "time" if stamped else "index"))
        return bad

    def on_ok(pr):
        axarr = pr.out
        g = {}
        for i in range(3):
            pl = [c for c in axarr[i].calls if c[0] == "plot"]
            if len(pl) != 1:
                g["axis_%d_one_line" % i] = z3.BoolVal(False)
                continue
            xs, ys = pl[0][1][0], pl[0][1][1]
            if stamped:
                expx = [SymReal(t) - (SymReal(z0) if start else 0) for t in Tj.t]
            else:
                expx = list(range(n))
            g["subplot_%d_x_is_%s" % (i, "time_minus_start" if stamped else "index")] = eq_seq(xs, expx)
            g["subplot_%d_y_is_%s" % (i, AX[i])] = eq_seq(ys, col_terms(Tj, i))
            g["subplot_%d_label" % i] = z3.BoolVal(axarr[i].labels.get("y") == "$%s$ (m)" % AX[i])
        g["x_label"] = z3.BoolVal(axarr[2].labels.get("x") == ("$t$ (s)" if stamped else "index"))
        runner.check_obligations(col, pr.ctx, g, inputs, generic_replay(draw, check), descr=case["name"])
    runner.explore_case(col, fn, Tj.assumptions() + [z0 != 0], on_ok, None, pins=common.pins_for(Tj, n=1), must_reach=("ok",))


def run_rpy(case, col):
    n, stamped, start = case["n"], case["stamped"], case["start"]
    Tj = SymTraj("a", n, stamps=stamped)
    z0 = z3.Real("start_timestamp")
    inputs = dict(Tj.inputs(), start_timestamp=z0)
    tr = common.S("evo.core.transformations")

    def fn():
        axarr = [RecAxes() for _ in range(3)]
        t = Tj.build("se3")
        P().traj_rpy(axarr, t, start_timestamp=SymReal(z0) if start else None)
        exp = [tr.euler_from_matrix(p, "sxyz") for p in Tj.build("se3").poses_se3]
        return axarr, exp

    def draw(Pr, plt, vals):
        fig, axarr = plt.subplots(3)
        t = Tj.concrete(vals, "se3")
        s = float(vals["start_timestamp"])
        Pr.traj_rpy(axarr, t, start_timestamp=s if start else None)
        return axarr, t, s

    def check(axarr, t, s):
        trr = common.R("evo.core.transformations")
        bad = []
        ang = rnp.array([trr.euler_from_matrix(p, "sxyz") for p in t.poses_se3])
        for i in range(3):
            x, y = line_xy(axarr[i].lines[0])
            expx = (t.timestamps - s if (start and s) else t.timestamps) if stamped else rnp.arange(t.num_poses, dtype=float)
            if not rnp.allclose(x, expx, atol=1e-12) or not rnp.allclose(y, rnp.rad2deg(ang[:, i]), atol=1e-9):
                bad.append("subplot %d does not show %s in degrees" % (i, ["roll", "pitch", "yaw"][i]))
        return bad

    def on_ok(pr):
        axarr, exp = pr.out
        g = {}
        for i in range(3):
            pl = [c for c in axarr[i].calls if c[0] == "plot"]
            if len(pl) != 1:
                g["axis_%d_one_line" % i] = z3.BoolVal(False)
                continue
            xs, ys = pl[0][1][0], list(rnp.asarray(pl[0][1][1], dtype=object).reshape(-1))
            expx = [SymReal(t) - (SymReal(z0) if start else 0) for t in Tj.t] if stamped else list(range(n))
            g["subplot_%d_x" % i] = eq_seq(xs, expx)
            ok = len(ys) == n
            eqs = []
            for k in range(n if ok else 0):
                y, e = ys[k], exp[k][i]
                if isinstance(y, stubs.ScaledAngle) and isinstance(e, stubs.Angle):
                    eqs += [sc.eq_goal(y.angle.c, e.c), sc.eq_goal(y.angle.s, e.s), z3.BoolVal(y.k == Fraction(180) / stubs.PI)]
                elif not isinstance(y, (stubs.ScaledAngle, stubs.Angle)) and not isinstance(e, stubs.Angle):
                    eqs.append(sc.eq_goal(y, e * (Fraction(180) / stubs.PI) if not isinstance(e, int) or e else 0))
                else:
                    eqs.append(z3.BoolVal(False))
            g["subplot_%d_shows_%s_in_degrees" % (i, ["roll", "pitch", "yaw"][i])] = z3.And(eqs) if ok else z3.BoolVal(False)
            g["subplot_%d_label" % i] = z3.BoolVal(axarr[i].labels.get("y") == ["$roll$ (deg)", "$pitch$ (deg)", "$yaw$ (deg)"][i])
        runner.check_obligations(col, pr.ctx, g, inputs, generic_replay(draw, check), descr=case["name"])
    runner.explore_case(col, fn, Tj.assumptions() + [z0 != 0], on_ok, None, pins=common.pins_for(Tj, n=1), must_reach=("ok",), max_paths=300)


def run_speeds(case, col):
    n, start = case["n"], case["start"]
    Tj = SymTraj("a", n)
    z0 = z3.Real("start_timestamp")
    inputs = dict(Tj.inputs(), start_timestamp=z0)

    def fn():
        ax = RecAxes()
        t = Tj.build("quat")
        snap = rnp.asarray(t.timestamps).copy()
        P().speeds(ax, t, start_timestamp=SymReal(z0) if start else None)
        return ax, t, snap

    def draw(Pr, plt, vals):
        fig = plt.figure()
        ax = fig.gca()
        t = Tj.concrete(vals)
        s = float(vals["start_timestamp"])
        ts0 = t.timestamps.copy()
        Pr.speeds(ax, t, start_timestamp=s if start else None)
        return ax, t, s, ts0

    def check(ax, t, s, ts0):
        x, y = line_xy(ax.lines[0])
        bad = []
        if not rnp.array_equal(t.timestamps, ts0):
            bad.append("the trajectory's timestamps were modified by plotting")
        expx = (ts0 - s if (start and s) else ts0)[1:]
        v = [float(rnp.linalg.norm(t.positions_xyz[i + 1] - t.positions_xyz[i]) / (ts0[i + 1] - ts0[i])) for i in range(t.num_poses - 1)]
        if not rnp.allclose(x, expx, atol=1e-12) or not rnp.allclose(y, v, rtol=1e-9):
            bad.append("speed plot does not show the speeds against the newer pose's time")
        return bad

    def on_ok(pr):
        ax, t, snap = pr.out
        pl = [c for c in ax.calls if c[0] == "plot"]
        g = {"one_line": z3.BoolVal(len(pl) == 1)}
        if len(pl) == 1:
            xs, ys = pl[0][1][0], list(rnp.asarray(pl[0][1][1], dtype=object).reshape(-1))
            g["x_is_time_of_the_newer_pose"] = eq_seq(xs, [SymReal(Tj.t[i]) - (SymReal(z0) if start else 0) for i in range(1, n)])
            hyps, eqs = [], []
            if len(ys) == n - 1:
                for i in range(n - 1):
                    rad = sum((Tj.p[i + 1][a] - Tj.p[i][a]) * (Tj.p[i + 1][a] - Tj.p[i][a]) for a in range(3))
                    dist = sc.sym_sqrt(sc.mk(rad))
                    eqs.append(toz(ys[i]) * (Tj.t[i + 1] - Tj.t[i]) == toz(dist))
            g["y_is_distance_over_time_difference"] = z3.And(eqs) if len(ys) == n - 1 else z3.BoolVal(False)
            g["labels"] = z3.BoolVal(ax.labels == {"x": "$t$ (s)", "y": "$v$ (m/s)"})
        g["trajectory_timestamps_untouched"] = z3.BoolVal(common.same_terms(t.timestamps, snap))
        runner.check_obligations(col, pr.ctx, g, inputs, generic_replay(draw, check), descr=case["name"], timeout_ms=60000)
    runner.explore_case(col, fn, Tj.assumptions() + [z0 != 0], on_ok, None, pins=common.pins_for(Tj, n=1), must_reach=("ok",))


def run_errarr(case, col):
    n = case["n"]
    ev = [z3.Real("e%d" % i) for i in range(n)]
    xv = [z3.Real("x%d" % i) for i in range(n)]
    inputs = {str(v): v for v in ev + xv}

    def fn():
        c = sc.ctx()
        with_x = c.choose(2, "with_x") == 1
        cum = c.choose(2, "cumulative") == 1
        ax = RecAxes()
        del PLT_CALLS[:]
        P().error_array(ax, symnp.array([SymReal(v) for v in ev]), x_array=symnp.array([SymReal(v) for v in xv]) if with_x else None,
                        cumulative=cum, name="APE (m)", title="T", xlabel="$t$ (s)")
        return ax, with_x, cum, list(PLT_CALLS)

    def on_ok(pr):
        ax, with_x, cum, pc = pr.out
        pl = [c for c in ax.calls if c[0] == "plot"]
        g = {"one_line": z3.BoolVal(len(pl) == 1)}
        if len(pl) == 1:
            a = pl[0][1]
            ys = a[1] if with_x else a[0]
            exp = [SymReal(v) for v in ev]
            if cum:
                tot, exp2 = 0, []
                for v in exp:
                    tot = tot + v
                    exp2.append(tot)
                exp = exp2
            g["values_in_order%s" % ("_cumulated" if cum else "")] = eq_seq(ys, exp)
            if with_x:
                g["against_the_given_x_array"] = eq_seq(a[0], [SymReal(v) for v in xv])
            else:
                g["against_the_index"] = z3.BoolVal(len(a) == 1)
        g["axis_texts"] = z3.BoolVal(("ylabel", "APE (m)") in pc and ("xlabel", "$t$ (s)") in pc and ("title", "T") in pc)
        runner.check_obligations(col, pr.ctx, g, inputs, lambda v: (True, "error_array plot data wrong"), descr=case["name"])
    runner.explore_case(col, fn, [], on_ok, None)


def run_multi(case, col):
    n = case["n"]
    A, B = SymTraj("a", n), SymTraj("b", n)
    inputs = dict(A.inputs(), **B.inputs())

    def fn():
        fig = RecFig()
        P().trajectories(fig, {"first": A.build("quat"), "second": B.build("quat")}, P().PlotMode.xz, title="TT")
        return fig

    def on_ok(pr):
        fig = pr.out
        ok = len(fig.axes_made) == 1
        g = {"one_axis": z3.BoolVal(ok)}
        if ok:
            ax = fig.axes_made[0]
            pl = [c for c in ax.calls if c[0] == "plot"]
            g["one_line_per_trajectory_in_order_with_its_name"] = z3.BoolVal(len(pl) == 2 and [c[2].get("label") for c in pl] == ["first", "second"])
            if len(pl) == 2:
                g["lines_draw_x_and_z"] = z3.And(eq_seq(pl[0][1][0], col_terms(A, 0)), eq_seq(pl[0][1][1], col_terms(A, 2)),
                                                 eq_seq(pl[1][1][0], col_terms(B, 0)), eq_seq(pl[1][1][1], col_terms(B, 2)))
            g["title_and_labels"] = z3.BoolVal(ax.title == "TT" and ax.labels == {"x": "$x$ (m)", "y": "$z$ (m)"})
        runner.check_obligations(col, pr.ctx, g, inputs, lambda v: (True, "trajectories() plot data wrong"), descr=case["name"])
    runner.explore_case(col, fn, A.assumptions() + B.assumptions(), on_ok, None, pins=common.pins_for(A, B, n=1), must_reach=("ok",))


def replay_file(rec):
    return False, "re-run ./check C20"
