"""Rotation provenance registry (DESIGN.md 2.5 items 1, 9, 11).

A 3x3 block whose nine entries are literally sigma*R(q) for a quaternion term
vector q with q.q = 1 (an assumption for harness inputs, an axiom for derived
ones) is *registered* under the content key of its entries.  Products of two
registered blocks are not multiplied out: by Lemma A (R(a)R(b) = R(a (x) b) for
unit a, b -- discharged by the solver once per run, see lemmas.py) the product
is R(q12) with fresh atoms q12 defined as a (x) b and |q12| = 1 (Lemma B).
"""
import numpy as _np
import z3

from .symcore import SymReal, ctx, toz, mk, is_conc


def quat_R(q):
    """unit-quaternion rotation matrix, entries as z3 terms. q = (w, x, y, z)"""
    w, x, y, z = q
    return [[1 - 2 * (y * y + z * z), 2 * (x * y - w * z), 2 * (x * z + w * y)],
            [2 * (x * y + w * z), 1 - 2 * (x * x + z * z), 2 * (y * z - w * x)],
            [2 * (x * z - w * y), 2 * (y * z + w * x), 1 - 2 * (x * x + y * y)]]


def quat_mul(a, b):
    w1, x1, y1, z1 = a
    w0, x0, y0, z0 = b
    return (w1 * w0 - x1 * x0 - y1 * y0 - z1 * z0,
            w1 * x0 + x1 * w0 + y1 * z0 - z1 * y0,
            w1 * y0 - x1 * z0 + y1 * w0 + z1 * x0,
            w1 * z0 + x1 * y0 - y1 * x0 + z1 * w0)


def quat_conj(q):
    w, x, y, z = q
    return (w, -x, -y, -z)


def norm2(q):
    return q[0] * q[0] + q[1] * q[1] + q[2] * q[2] + q[3] * q[3]


class Rot:
    __slots__ = ("q", "sigma")

    def __init__(self, q, sigma=1):
        self.q = tuple(q)
        self.sigma = sigma


def _ekey(x):
    if isinstance(x, SymReal):
        return ("z", x.z.get_id())
    return ("c", x)


def block_key(M):
    return tuple(_ekey(M[i, j]) for i in range(3) for j in range(3))


def _reg():
    return ctx().memo.setdefault("rotreg", {})


def rot_array(q, sigma=1):
    """object ndarray 3x3 with entries sigma*R(q) (simplified terms)"""
    R = quat_R(q)
    out = _np.empty((3, 3), dtype=object)
    for i in range(3):
        for j in range(3):
            t = R[i][j] if sigma == 1 else -R[i][j]
            t = z3.simplify(t) if not is_conc(t) else t
            out[i, j] = mk(t) if not is_conc(t) else t
    return out


def nf_key(M):
    """content key of the *normal forms* of the entries (polynomials modulo the unit hypotheses):
    equal polynomials give equal keys however the terms were built"""
    from . import polyred
    c = ctx()
    if not polyred.active(c):
        return None
    try:
        rw = polyred.Rewriter(c)
        out = []
        for i in range(3):
            for j in range(3):
                x = M[i, j]
                if isinstance(x, SymReal):
                    t = rw.rw(x.z)
                    if z3.is_rational_value(t):
                        f = mk(t)
                        out.append(("c", f))
                    else:
                        out.append(("z", t.get_id()))
                else:
                    out.append(("c", x))
        return tuple(out)
    except polyred.NotPolynomial:
        return None


def register(M, q, sigma=1):
    r = Rot(q, sigma)
    _reg()[block_key(M)] = r
    k = nf_key(M)
    if k is not None:
        ctx().memo.setdefault("rotreg_nf", {})[k] = r
    return M


def _ensure_inputs_registered():
    """R(q) of every declared unit quaternion is registered (lazily), so that blocks built by
    evo's own quaternion_matrix are recognised by their normal form"""
    from . import polyred
    c = ctx()
    done = c.memo.setdefault("rotreg_inputs", set())
    for w, (xyz, q) in list(polyred.unit_hyps_of(c).lead.items()):
        if w not in done:
            done.add(w)
            if len(q) == 4:
                new_rotation(list(q))


def new_rotation(q, sigma=1):
    """build + register sigma*R(q); q are z3 terms / python numbers"""
    q = tuple(toz(x) if not z3.is_expr(x) else x for x in q)
    M = rot_array(q, sigma)
    register(M, q, sigma)
    return M


def lookup(M):
    """Rot for a 3x3 block (direct or as transpose of a registered one)"""
    if M.shape != (3, 3):
        return None
    reg = _reg()
    r = reg.get(block_key(M))
    if r is not None:
        return r
    r = reg.get(block_key(M.T))
    if r is not None:
        rt = Rot(quat_conj(r.q), r.sigma)
        reg[block_key(M)] = rt
        return rt
    if any(isinstance(M[i, j], SymReal) for i in range(3) for j in range(3)):
        _ensure_inputs_registered()
        nfreg = ctx().memo.get("rotreg_nf", {})
        if nfreg:
            k = nf_key(M)
            r = nfreg.get(k) if k is not None else None
            if r is not None:
                reg[block_key(M)] = r
                return r
            kt = nf_key(M.T)
            r = nfreg.get(kt) if kt is not None else None
            if r is not None:
                rt = Rot(quat_conj(r.q), r.sigma)
                reg[block_key(M)] = rt
                return rt
    # identity / signed permutation-free diagonal matrices
    if all(not isinstance(M[i, j], SymReal) for i in range(3) for j in range(3)):
        d = [M[i, i] for i in range(3)]
        off = all(M[i, j] == 0 for i in range(3) for j in range(3) if i != j)
        if off and all(x in (1, -1) for x in d):
            table = {(1, 1, 1): ((1, 0, 0, 0), 1), (1, -1, -1): ((0, 1, 0, 0), 1),
                     (-1, 1, -1): ((0, 0, 1, 0), 1), (-1, -1, 1): ((0, 0, 0, 1), 1),
                     (-1, -1, -1): ((1, 0, 0, 0), -1), (-1, 1, 1): ((0, 1, 0, 0), -1),
                     (1, -1, 1): ((0, 0, 1, 0), -1), (1, 1, -1): ((0, 0, 0, 1), -1)}
            q, s = table[tuple(d)]
            rt = Rot(tuple(z3.RealVal(v) for v in q), s)
            reg[block_key(M)] = rt
            return rt
    return None


def _fresh_product(ra, rb):
    """fresh quaternion atoms for ra*rb with definitional + norm axioms"""
    from . import polyred
    c = ctx()
    prod = quat_mul(ra.q, rb.q)
    prod_s = [z3.simplify(p) for p in prod]
    if polyred.active(c):
        try:
            rw = polyred.Rewriter(c)
            prod_s = [rw.rw(p) for p in prod_s]
        except polyred.NotPolynomial:
            pass
    # constant or already atomic components need no fresh atom
    if all(z3.is_rational_value(p) or (z3.is_const(p)) for p in prod_s):
        return Rot(prod_s, ra.sigma * rb.sigma)
    # conj(q) (x) q and similar: try cheap identity detection (|q|^2,0,0,0)
    qs = [c.fresh("qp") for _ in range(4)]
    names = [v.decl().name() for v in qs]
    for v, p in zip(qs, prod_s):
        c.axiom(v, v == p, "def")
        polyred.register_def(c, v, p)
    n1 = norm2(qs) == 1
    for v in qs:
        c.axiom(v, n1, "cons")
    polyred.unit_hyps_of(c).add(qs)
    return Rot(qs, ra.sigma * rb.sigma)


def rot_dot(A, B):
    """product of arrays when rotation provenance applies; None otherwise"""
    if A.shape == (3, 3) and B.shape == (3, 3):
        ra, rb = lookup(A), lookup(B)
        if ra is not None and rb is not None:
            r = _fresh_product(ra, rb)
            M = rot_array(r.q, r.sigma)
            register(M, r.q, r.sigma)
            return M
        return None
    if A.shape == (4, 4) and B.shape == (4, 4) and _bottom_ok(A) and _bottom_ok(B):
        ra, rb = lookup(A[:3, :3]), lookup(B[:3, :3])
        if ra is None or rb is None:
            return None
        r = _fresh_product(ra, rb)
        out = _np.empty((4, 4), dtype=object)
        R = rot_array(r.q, r.sigma)
        register(R, r.q, r.sigma)
        out[:3, :3] = R
        t = _np.dot(A[:3, :3], B[:3, 3]) + A[:3, 3]
        out[:3, 3] = _atomise(t, "tp")
        out[3, :] = [0, 0, 0, 1]
        return out
    return None


def _bottom_ok(M):
    b = M[3, :]
    return all(not isinstance(x, SymReal) for x in b) and list(b) == [0, 0, 0, 1]


def _atomise(vec, name):
    """replace big terms by fresh atoms with definitional axioms"""
    c = ctx()
    out = []
    for v in vec:
        if isinstance(v, SymReal) and not z3.is_const(v.z) and _size(v.z) > 40:
            from . import polyred
            f = c.fresh(name)
            c.axiom(f, f == v.z, "def")
            polyred.register_def(c, f, v.z)
            out.append(SymReal(f))
        else:
            out.append(v)
    return out


def _size(t, limit=200):
    n = 0
    st = [t]
    seen = set()
    while st and n < limit:
        x = st.pop()
        i = x.get_id()
        if i in seen:
            continue
        seen.add(i)
        n += 1
        st.extend(x.children())
    return n


# -- rotation vectors (as_rotvec stub results) ------------------------------
def register_rotvec(v, theta):
    ctx().memo.setdefault("rotvec", {})[tuple(_ekey(x) for x in v)] = theta


def rotvec_angle(A):
    if A.shape != (3,):
        return None
    return ctx().memo.get("rotvec", {}).get(tuple(_ekey(x) for x in A))
