"""Check runner: cases in worker processes, obligations, replay, known findings,
evidence, exit codes (DESIGN.md 2.3, 7, 8).

exit 0  every obligation of the claim discharged (unsat), vacuity guards passed
exit 1  a solver counterexample reproduced on the real code (VIOLATION line)
exit 2  inconclusive (unknown / time-out / NotEncodable / path budget)
exit 3  harness error (counterexample that does not replay, vacuous harness)
"""
import argparse
import concurrent.futures as cf
import importlib
import json
import multiprocessing as mp
import os
import sys
import time
import traceback
from fractions import Fraction

import z3

from . import symcore as sc

VERIF = os.path.dirname(os.path.dirname(os.path.abspath(__file__)))
# evidence and replays go to /verif; runs against deliberately changed trees (seeded changes) redirect them
OUT = os.environ.get("EVOVERIF_OUT", VERIF)
KNOWN_FILE = os.path.join(VERIF, "known_findings.json")


# --------------------------------------------------------------------------
# known findings
# --------------------------------------------------------------------------
def load_known(prop):
    if not os.path.exists(KNOWN_FILE):
        return {}
    with open(KNOWN_FILE) as f:
        data = json.load(f)
    out = {}
    for e in data.get("findings", []):
        if e.get("property") == prop and e.get("status") == "known":
            out[e["key"]] = e
    return out


# --------------------------------------------------------------------------
# per-case collector
# --------------------------------------------------------------------------
class Collector:
    """accumulates what one case did; plain data only (crosses processes)"""

    def __init__(self, case_name):
        self.d = dict(case=case_name, paths=0, outcomes={}, obligations=0,
                      discharged=0, violations=[], known_hits=[], inconclusive=[],
                      harness_errors=[], queries=0, solver_s=0.0, samples=[],
                      reach_sat=0, lemmas=0, notes=[], wall_s=0.0,
                      distinct_paths=0)

    def outcome(self, status):
        self.d["paths"] += 1
        self.d["outcomes"][status] = self.d["outcomes"].get(status, 0) + 1

    def sample(self, s):
        if len(self.d["samples"]) < 3:
            self.d["samples"].append(s)

    def note(self, s):
        if len(self.d["notes"]) < 20:
            self.d["notes"].append(s)


def model_values(model, inputs):
    """inputs: dict name -> z3 const; returns dict name -> Fraction"""
    out = {}
    for n, v in inputs.items():
        val = model.eval(v, model_completion=True)
        try:
            out[n] = sc.zval_to_fraction(val)
        except ValueError:
            if z3.is_true(val) or z3.is_false(val):
                out[n] = bool(z3.is_true(val))
            else:
                out[n] = str(val)
    return out


def _jsonable(v):
    if isinstance(v, Fraction):
        return float(v) if v.denominator != 1 else int(v)
    if isinstance(v, dict):
        return {str(k): _jsonable(x) for k, x in v.items()}
    if isinstance(v, (list, tuple)):
        return [_jsonable(x) for x in v]
    if isinstance(v, (int, float, str, bool)) or v is None:
        return v
    return str(v)


def dyadic_constraints(inputs, bits=10, bound=2 ** 12):
    cons = []
    for n, v in inputs.items():
        if z3.is_real(v):
            k = z3.Int("dy!" + n)
            cons += [z3.ToReal(k) == v * (2 ** bits), k <= bound * 2 ** bits, k >= -bound * 2 ** bits]
    return cons


def check_obligation(col, ctx, name, goal, inputs, replay, known=None, descr=None,
                     timeout_ms=None, groups_first=None, extra_assume=(), witness_hook=None):
    """Decide one obligation on the current path.

    goal      z3 Bool that must hold on this path
    inputs    dict name -> z3 const (the harness's symbolic inputs)
    replay    callable(dict name->Fraction) -> (violated: bool, detail: str);
              runs the *real* evo on real numpy with a concrete oracle
    known     dict key -> z3 predicate over inputs (from known_findings.json);
              violations inside a predicate are KNOWN-FINDINGs
    """
    known = known or {}
    col.d["obligations"] += 1
    if groups_first is None and any(g not in sc.LIGHT_GROUPS for _, _, g in ctx.axioms):
        groups_first = sc.LIGHT_GROUPS
    goal = _simplify_goal(ctx, goal)
    neg = [z3.Not(goal)] + list(extra_assume)
    outside = neg + [z3.Not(p) for p in known.values()]
    r, m = ctx.solve(outside, kind="goal", timeout_ms=timeout_ms, groups=groups_first)
    if r == "unknown" and groups_first is not None:
        r, m = ctx.solve(outside, kind="goal", timeout_ms=timeout_ms)
    if r == "sat" and groups_first is not None:
        r, m = ctx.solve(outside, kind="goal", timeout_ms=timeout_ms)
    if r == "sat":
        # counterexample under the sliced constraint set: confirm with all
        r, m = ctx.solve(outside, kind="goal-full", full=True, timeout_ms=timeout_ms)
    if r == "unknown":
        # bug-hunting pass (DESIGN 2.5 item 7): the same query with the inputs pinned to generic rational
        # values is far easier; a model of the pinned query is a model of the obligation's negation.
        # (unsat of a pinned query proves nothing and is ignored.)
        pins = ctx.memo.get("pins")
        if callable(pins):
            pins = pins(ctx)
        for pin in (pins or []):
            # consequences of the SVD factorisation (group svdinv) are dropped here: with pinned factors the
            # factorisation itself is linear; the replay on the real code is the judge of the candidate
            rp, mp = ctx.solve(outside + list(pin), kind="bughunt", full=True, timeout_ms=15000,
                               groups=("def", "cons", "svdfac"))
            if rp == "sat":
                r, m = rp, mp
                break
    verdict_outside = r
    if r == "unknown":
        col.d["inconclusive"].append(dict(ob=name, why="solver unknown/time-out", descr=descr))
    elif r == "sat":
        ok = _replay_model(col, ctx, name, m, inputs, replay, outside, descr, key=None, witness_hook=witness_hook)
        if not ok:
            return False
    # inside each known predicate: still reproducible?
    for key, pred in known.items():
        rk, mk_ = ctx.solve(neg + [pred], kind="known", full=False, timeout_ms=timeout_ms)
        if rk == "sat":
            rk, mk_ = ctx.solve(neg + [pred], kind="known", full=True, timeout_ms=timeout_ms)
        if rk == "sat":
            _replay_model(col, ctx, name, mk_, inputs, replay, neg + [pred], descr, key=key)
    if verdict_outside == "unsat":
        col.d["discharged"] += 1
        col.sample(dict(obligation=name, verdict="unsat", descr=descr,
                        decisions=[k for k, f in ctx.choices if not f][:40]))
        return True
    return False


def _simplify_goal(ctx, goal):
    from . import polyred
    if not polyred.active(ctx):
        return goal
    try:
        g = polyred.rewrite(ctx, goal)
        return z3.simplify(g) if z3.is_bool(g) else goal
    except polyred.NotPolynomial:
        return goal


def check_obligations(col, ctx, goals, inputs, replay, known=None, descr=None, timeout_ms=None,
                      groups_first=None, hyps=None, witness_hook=None):
    """goals: dict name -> z3 Bool.  One query for the conjunction first; only if
    that is not unsat are the clauses decided one by one.  hyps: formulas already
    established on this path (proved obligations, spec definitions) that may be used."""
    if hyps:
        saved = list(ctx.assumptions)
        ctx.assumptions = saved + list(hyps)
        try:
            return check_obligations(col, ctx, goals, inputs, replay, known, descr, timeout_ms, groups_first,
                                     witness_hook=witness_hook)
        finally:
            ctx.assumptions = saved
    if callable(goals):
        # goals built lazily: a nan/inf of the code under test (poison) where the property needs a value is
        # itself a failed obligation on this path (decided by the replay on the real code)
        try:
            goals = goals()
        except sc.PoisonValue as e:
            goals = {"results_are_numbers_where_the_property_requires_values (%s)" % e: z3.BoolVal(False)}
    goals = {k: v for k, v in goals.items()}
    if not goals:
        return True
    known = known or {}
    if groups_first is None and any(g not in sc.LIGHT_GROUPS for _, _, g in ctx.axioms):
        groups_first = sc.LIGHT_GROUPS
    goals = {k: _simplify_goal(ctx, v) for k, v in goals.items()}
    if all(z3.is_true(v) for v in goals.values()) and not known:
        # every clause reduced to True by certified rewriting: one trivial solver query for the record
        r, _ = ctx.solve([z3.Not(z3.And(list(goals.values())))], kind="goal")
        if r == "unsat":
            col.d["obligations"] += len(goals)
            col.d["discharged"] += len(goals)
            col.sample(dict(obligations=sorted(goals), verdict="unsat (clauses reduce to true by solver-certified "
                                                               "rewriting modulo the unit-quaternion hypotheses)", descr=descr))
            return True
    if len(goals) > 1:
        conj = z3.And(list(goals.values()))
        outside = [z3.Not(conj)] + [z3.Not(p) for p in known.values()]
        r, _ = ctx.solve(outside, kind="goal", timeout_ms=timeout_ms, groups=groups_first)
        if r == "unsat":
            col.d["obligations"] += len(goals)
            col.d["discharged"] += len(goals)
            col.sample(dict(obligations=sorted(goals), verdict="unsat (conjunction)", descr=descr,
                            decisions=[k for k, f in ctx.choices if not f][:40]))
            if known:
                for key, pred in known.items():
                    rk, mk_ = ctx.solve([z3.Not(conj), pred], kind="known", timeout_ms=timeout_ms)
                    if rk == "sat":
                        for name, g in goals.items():
                            rk2, m2 = ctx.solve([z3.Not(g), pred], kind="known", full=True, timeout_ms=timeout_ms)
                            if rk2 == "sat":
                                _replay_model(col, ctx, name, m2, inputs, replay, [z3.Not(g), pred], descr, key=key)
                                break
            return True
    ok = True
    for name, g in goals.items():
        ok = check_obligation(col, ctx, name, g, inputs, replay, known, descr, timeout_ms, groups_first,
                              witness_hook=witness_hook) and ok
    return ok


def check_lemma(col, ctx, name, hyps, goal, descr=None, timeout_ms=60000):
    """Lemma chaining (DESIGN 2.5 item 6): decide `hyps => goal` over fresh variables,
    *without* the path's assumptions (fewer hypotheses: sound).  The caller instantiates the
    universally valid lemma at terms for which it has already discharged the hypotheses.
    A sat answer only means the chain is insufficient: inconclusive, never a violation."""
    import time
    col.d["obligations"] += 1
    s = z3.Solver()
    s.set("timeout", timeout_ms)
    fs = list(hyps) + [z3.Not(goal)]
    for h in sc.QUERY_HOOKS:
        fs = fs + h(fs)
    for f in fs:
        s.add(f)
    t0 = time.time()
    r = str(s.check())
    ctx.stats.add("lemma", time.time() - t0)
    if r == "unsat":
        col.d["discharged"] += 1
        col.sample(dict(obligation=name, verdict="unsat (chained lemma)", descr=descr))
        return True
    col.d["inconclusive"].append(dict(ob=name, why="chained lemma not discharged (%s)" % r, descr=descr))
    return False


def _replay_model(col, ctx, name, m, inputs, replay, query, descr, key, witness_hook=None):
    vals = model_values(m, inputs)
    try:
        violated, detail = replay(vals)
    except Exception as e:      # noqa: BLE001
        violated, detail = False, "replay raised %s: %s" % (type(e).__name__, e)
    if not violated and witness_hook is not None:
        # harness-specific construction of an exactly representable witness in the same symbolic class
        try:
            for vals2 in witness_hook(ctx, query) or []:
                v2, d2 = replay(vals2)
                if v2:
                    violated, detail, vals = True, d2 + " [constructed exact witness]", vals2
                    break
        except Exception as e:      # noqa: BLE001
            detail = str(detail) + " (witness hook raised %s)" % e
    if not violated:
        # exact dyadic witness
        for bits in (6, 12):
            r2, m2 = ctx.solve(list(query) + dyadic_constraints(inputs, bits), kind="dyadic", full=True,
                               timeout_ms=10000)
            if r2 == "sat":
                vals2 = model_values(m2, inputs)
                try:
                    violated, detail = replay(vals2)
                except Exception as e:      # noqa: BLE001
                    violated, detail = False, "replay raised %s: %s" % (type(e).__name__, e)
                if violated:
                    vals = vals2
                    break
    rec = dict(ob=name, witness=_jsonable(vals), detail=detail, descr=descr, known=key,
               decisions=[k for k, f in ctx.choices if not f][:60])
    if violated:
        if key is None:
            if len(col.d["violations"]) >= 4:
                col.d["more_violations"] = col.d.get("more_violations", 0) + 1
                return False
            col.d["violations"].append(rec)
        else:
            col.d["known_hits"].append(rec)
        return False
    if key is None:
        col.d["harness_errors"].append(dict(ob=name, why="counterexample did not replay on the real code",
                                            witness=_jsonable(vals), detail=detail))
    return False


def reach_check(col, ctx, what="path", pins=None):
    """vacuity guard: the path (assumptions + trail + axioms) must be sat.
    Cheap first: with the inputs pinned to generic rational values (a sat there
    is a sat); then the unpinned complete query; then the sliced one."""
    r = "unknown"
    if callable(pins):
        pins = pins(ctx)
    for pin in (pins or []):
        r, _ = ctx.solve(list(pin), kind="reach", full=True, timeout_ms=5000)
        if r == "sat":
            break
    if r != "sat":
        r, _ = ctx.solve([], kind="reach", full=True, timeout_ms=15000)
    if r == "unknown":
        r, _ = ctx.solve([z3.BoolVal(True)], kind="reach")
        if r == "sat":
            col.note("reachability of %s shown for the sliced constraint set only" % what)
    if r == "sat":
        col.d["reach_sat"] += 1
        return True
    return r


def explore_case(col, fn, assumptions, on_ok=None, on_exc=None, timeout_ms=20000,
                 max_paths=4000, seed=0, reach_every=True, pins=None, must_reach=()):
    """explore fn under assumptions; call on_ok(pathresult) / on_exc(pathresult)
    while the path context is current."""
    stats = sc.Stats()
    reached = set()
    tried = {}
    _pins = pins

    def on_path(pr):
        col.outcome(pr.status)
        pr.ctx.memo["pins"] = _pins
        if pr.status == "notenc":
            col.d["inconclusive"].append(dict(ob="path", why="NotEncodable: %s" % pr.exc))
            return
        if pr.status == "inconclusive":
            col.d["inconclusive"].append(dict(ob="path", why=str(pr.exc)))
            return
        cls = pr.status
        if cls not in reached and len(tried.get(cls, [])) < 6:
            rr = reach_check(col, pr.ctx, cls, pins)
            if rr is True:
                reached.add(cls)
            else:
                tried.setdefault(cls, []).append(rr)
        if pr.status == "ok":
            if on_ok:
                on_ok(pr)
        else:
            if on_exc:
                on_exc(pr)
            else:
                col.d["harness_errors"].append(dict(ob="path", why="unexpected exception %s: %s" % (pr.status, pr.exc)))
    try:
        res = sc.explore(fn, assumptions, timeout_ms=timeout_ms, max_paths=max_paths,
                         seed=seed, stats=stats, on_path=on_path)
    except sc.PathBudget as e:
        col.d["inconclusive"].append(dict(ob="exploration", why=str(e)))
        res = []
    col.d["queries"] += stats.queries
    col.d["solver_s"] += stats.solver_s
    col.d["distinct_paths"] += len({tuple(p.decisions) for p in res})
    # vacuity guard: the exploration must contain at least one path shown satisfiable end to end
    # (paths visited under the light abstraction may be infeasible; that is sound and expected)
    if res and not reached:
        if all(p.status in ("notenc", "inconclusive") for p in res):
            pass        # nothing could be encoded: already recorded as inconclusive, not a vacuous harness
        elif any(x == "unknown" for v in tried.values() for x in v):
            col.d["inconclusive"].append(dict(ob="reachability", why="no path could be shown satisfiable (solver unknown)"))
        else:
            col.d["harness_errors"].append(dict(ob="reachability", why="no explored path is satisfiable: vacuous harness"))
    for cls, v in tried.items():
        if cls not in reached:
            col.note("outcome class %s: not shown reachable (%s)" % (cls, ",".join(map(str, v))))
    for cls in must_reach:
        if cls not in reached:
            why = "outcome class %r, on which this case's claim rests, was not shown reachable (%s)" % (
                cls, ",".join(map(str, tried.get(cls, ["no such path"]))))
            if any(x == "unknown" for x in tried.get(cls, [])) or (
                    res and any(p.status in ("notenc", "inconclusive") for p in res)):
                col.d["inconclusive"].append(dict(ob="reachability", why=why))
            else:
                col.d["harness_errors"].append(dict(ob="reachability", why=why))
    return res


# --------------------------------------------------------------------------
# main driver
# --------------------------------------------------------------------------
def _worker_init(modname, repo):
    os.environ["EVOVERIF_REPO"] = repo
    import warnings
    import logging
    warnings.filterwarnings("ignore")
    logging.disable(logging.CRITICAL)
    h = importlib.import_module(modname)
    if hasattr(h, "worker_init"):
        h.worker_init()


def _run_case(modname, case):
    h = importlib.import_module(modname)
    t0 = time.time()
    col = Collector(case["name"])
    try:
        h.run_case(case, col)
    except sc.NotEncodable as e:
        col.d["inconclusive"].append(dict(ob="case", why="NotEncodable: %s" % e))
    except sc.Inconclusive as e:
        col.d["inconclusive"].append(dict(ob="case", why=str(e)))
    except Exception as e:      # noqa: BLE001
        col.d["harness_errors"].append(dict(ob="case", why="%s: %s" % (type(e).__name__, e),
                                            tb=traceback.format_exc()[-1500:]))
    col.d["wall_s"] = time.time() - t0
    return col.d


def run_check(prop, tier, seed, repo, jobs=None, only=None, verbose=False, exact=False):
    modname = "harness.%s" % prop.lower()
    t0 = time.time()
    h = importlib.import_module(modname)
    cases = h.cases(tier, seed)
    if only:
        cases = [c for c in cases if (c["name"] == only if exact else only in c["name"])]
    jobs = jobs or min(len(cases), os.cpu_count() or 4, 16)
    results = []
    ctxmp = mp.get_context("fork")
    per_case_timeout = getattr(h, "CASE_TIMEOUT_S", {}).get(tier, 900)
    with cf.ProcessPoolExecutor(max_workers=max(1, jobs), mp_context=ctxmp,
                                initializer=_worker_init, initargs=(modname, repo)) as ex:
        futs = {ex.submit(_run_case, modname, c): c for c in cases}
        for f in cf.as_completed(futs):
            c = futs[f]
            try:
                d = f.result(timeout=per_case_timeout)
            except Exception as e:      # noqa: BLE001
                d = Collector(c["name"]).d
                d["harness_errors"].append(dict(ob="case", why="worker failed: %s %s" % (type(e).__name__, e)))
            results.append(d)
            if verbose:
                print("  case %-40s paths=%d ob=%d/%d viol=%d known=%d inc=%d err=%d  %.1fs" % (
                    d["case"], d["paths"], d["discharged"], d["obligations"], len(d["violations"]),
                    len(d["known_hits"]), len(d["inconclusive"]), len(d["harness_errors"]), d["wall_s"]),
                    flush=True)
            if d["violations"] and os.environ.get("EVOVERIF_FAILFAST", "1") != "0" and len(results) < len(cases):
                # a counterexample has been replayed on the real code: the verdict of this run is VIOLATION whatever
                # the remaining cases say (on a broken tree they mostly run into their time-outs); stop them
                done = {r["case"] for r in results}
                left = [c["name"] for c in cases if c["name"] not in done]
                d["notes"].append("stopped after the first violation that replayed on the real code; %d case(s) not "
                                  "finished: %s" % (len(left), ", ".join(left[:40])))
                for fu in futs:
                    fu.cancel()
                for pr in list(getattr(ex, "_processes", {}).values()):
                    try:
                        pr.kill()
                    except Exception:      # noqa: BLE001
                        pass
                ex.shutdown(wait=False, cancel_futures=True)
                # scratch directories of the workers that were stopped (created by this run only)
                import glob
                import shutil
                import tempfile
                for dd in glob.glob(os.path.join(os.environ.get("TMPDIR", tempfile.gettempdir()), "evoverif_%s_*" % prop.lower())):
                    try:
                        if os.path.getmtime(dd) >= t0 - 1:
                            shutil.rmtree(dd, ignore_errors=True)
                    except OSError:
                        pass
                break
    results.sort(key=lambda d: d["case"])
    return finish(prop, tier, seed, h, cases, results, time.time() - t0)


def finish(prop, tier, seed, h, cases, results, wall):
    tot = lambda k: sum(d[k] for d in results)      # noqa: E731
    violations = [dict(v, case=d["case"]) for d in results for v in d["violations"]]
    known_hits = [dict(v, case=d["case"]) for d in results for v in d["known_hits"]]
    inconcl = [dict(v, case=d["case"]) for d in results for v in d["inconclusive"]]
    herrs = [dict(v, case=d["case"]) for d in results for v in d["harness_errors"]]
    outcomes = {}
    for d in results:
        for k, v in d["outcomes"].items():
            outcomes[k] = outcomes.get(k, 0) + v
    samples = []
    for d in results:
        for s in d["samples"][:1]:
            samples.append(dict(case=d["case"], **s))
    samples = samples[:12] or [dict(case=c["name"]) for c in cases[:3]]
    # replay files
    rdir = os.path.join(OUT, "replays", prop)
    lines = []
    if violations:
        os.makedirs(rdir, exist_ok=True)
        for i, v in enumerate(violations):
            p = os.path.join(rdir, "%d.json" % i)
            with open(p, "w") as f:
                json.dump(dict(property=prop, tier=tier, **v), f, indent=1, default=str)
            lines.append("VIOLATION property=%s replay=%s" % (prop, p))
            print("  -> %s: %s | %s" % (v["case"], v["ob"], str(v.get("detail"))[:300]))
    seen_known = {}
    for v in known_hits:
        seen_known.setdefault(v["known"], v)
    known = load_known(prop)
    for key, v in seen_known.items():
        e = known.get(key, {})
        print("KNOWN-FINDING: property=%s %s [%s; witness case %s: %s]" % (
            prop, e.get("what", key), key, v["case"], str(v.get("detail"))[:200]))
    for ln in lines:
        print(ln)
    if violations:
        code = 1
    elif herrs:
        code = 3
    elif inconcl:
        code = 2
    else:
        code = 0
    # vacuity: something must have been decided
    if code == 0 and tot("obligations") == 0:
        herrs.append(dict(ob="check", why="no obligation was generated"))
        code = 3
    if code in (2, 3):
        for x in (herrs if code == 3 else inconcl)[:8]:
            print("  %s: %s | %s | %s" % ("HARNESS-ERROR" if code == 3 else "INCONCLUSIVE",
                                          x.get("case"), x.get("ob"), str(x.get("why"))[:400]))
            if x.get("tb"):
                print(x["tb"])
    ev = dict(
        property_id=prop, tier=tier, seed=seed, level=getattr(h, "LEVEL", "other"),
        coverage=dict(
            explanation=("bounded symbolic execution of evo's own functions (loaded from the "
                         "current /repo tree onto a symbolic numpy/math/scipy facade, real-number "
                         "semantics) with one SMT query per obligation and path; unsat = holds for "
                         "every input within the bounds; sat models are replayed on the real code"),
            evaluations=tot("paths"), distinct_nontrivial=tot("distinct_paths"),
            rule=("one evaluation = one feasible execution path of the real function under a "
                  "symbolic input class (case); distinct = distinct decision trails; non-trivial = "
                  "the path reached the harness's assertions or an evo exception"),
            samples=samples,
            obligations=tot("obligations"), discharged=tot("discharged"),
            path_outcomes=outcomes, cases=len(cases),
            case_names=[c["name"] for c in cases][:200],
            solver_queries=tot("queries"), solver_s=round(tot("solver_s"), 3),
            reachability_witnesses=tot("reach_sat"),
            states=sum(d.get("states", 0) for d in results) or tot("distinct_paths"),
            transitions=sum(d.get("transitions", 0) for d in results) or tot("queries"),
            traces_validated_against_impl=tot("paths"),
            functions_encoded=getattr(h, "FUNCTIONS", []),
            bounds=getattr(h, "BOUNDS", {}).get(tier, getattr(h, "BOUNDS", {})),
            stubs=getattr(h, "STUBS", []), outside_claim=getattr(h, "OUTSIDE", []),
            known_findings_reproduced=sorted(seen_known),
            inconclusive=len(inconcl), harness_errors=len(herrs),
            solver="z3 %s (python API), fresh solver per query, timeout per query" % z3.get_version_string(),
            exhaustive=False,
            notes=[n for d in results for n in d["notes"]][:30],
        ),
        assumptions=getattr(h, "ASSUMPTIONS", []) + [
            "real mode: floats are modelled as mathematical reals; rounding, overflow and NaN "
            "propagation are outside the claim",
            "numpy/scipy C-level kernels are replaced by the listed contract stubs"],
        wall_s=round(wall, 2), violations=len(violations),
    )
    os.makedirs(os.path.join(OUT, "evidence"), exist_ok=True)
    with open(os.path.join(OUT, "evidence", "%s.json" % prop), "w") as f:
        json.dump(ev, f, indent=1, default=str)
    print("%s tier=%s cases=%d paths=%d obligations=%d discharged=%d violations=%d known=%d "
          "inconclusive=%d harness_errors=%d queries=%d solver=%.1fs wall=%.1fs -> exit %d" % (
              prop, tier, len(cases), tot("paths"), tot("obligations"), tot("discharged"),
              len(violations), len(seen_known), len(inconcl), len(herrs), tot("queries"),
              tot("solver_s"), wall, code))
    return code


def main(argv=None):
    ap = argparse.ArgumentParser()
    ap.add_argument("prop")
    ap.add_argument("--tier", default=os.environ.get("VERIF_TIER", "quick"), choices=["quick", "thorough"])
    ap.add_argument("--replay")
    ap.add_argument("--jobs", type=int)
    ap.add_argument("--only")
    ap.add_argument("-v", "--verbose", action="store_true")
    ap.add_argument("--repo", default=os.environ.get("EVOVERIF_REPO", "/repo"))
    a = ap.parse_args(argv)
    seed = int(os.environ.get("VERIF_SEED", "0") or 0)
    os.environ["EVOVERIF_REPO"] = a.repo
    sys.path.insert(0, VERIF)
    import warnings
    warnings.filterwarnings("ignore")
    if a.replay:
        h = importlib.import_module("harness.%s" % a.prop.lower())
        with open(a.replay) as f:
            rec = json.load(f)
        if getattr(h, "REPLAY_DIRECT", False):
            # the harness re-runs the recorded witness on the real code directly
            if hasattr(h, "worker_init"):
                h.worker_init()
            violated, detail = h.replay_file(rec)
            print("replay %s: %s -- %s" % (a.replay, "VIOLATED" if violated else "not violated", detail))
            return 1 if violated else 0
        # otherwise the recorded case is decided again on the current tree (the run itself replays every model on the
        # real code before it reports); evidence and replay files of this run go to a scratch directory
        import shutil
        import tempfile
        global OUT
        OUT = tempfile.mkdtemp(prefix="evoverif_replay_", dir=os.environ.get("TMPDIR", "/tmp"))
        try:
            rc = run_check(a.prop.upper(), rec.get("tier", a.tier), seed, a.repo, a.jobs, rec.get("case"), a.verbose, exact=True)
        finally:
            shutil.rmtree(OUT, ignore_errors=True)
        print("replay %s: case %r decided again on the current tree -> %s (recorded: %s | %s)" % (
            a.replay, rec.get("case"), {0: "not violated", 1: "VIOLATED"}.get(rc, "no verdict (exit %d)" % rc), rec.get("ob"),
            str(rec.get("detail"))[:200]))
        return rc
    return run_check(a.prop.upper(), a.tier, seed, a.repo, a.jobs, a.only, a.verbose)


if __name__ == "__main__":
    sys.exit(main())
