"""Quaternion/rotation lemmas the rotation registry relies on (DESIGN.md 2.5).
They are facts about R(q), independent of evo's source, and are discharged by
the solver on every run that uses the registry (counted solver queries):

A  |a| = |b| = 1  =>  R(a) R(b) = R(a (x) b)            (entrywise)
B  |a (x) b|^2 = |a|^2 |b|^2
C  |q| = 1  =>  R(q)^T R(q) = I
D  |q| = 1  =>  det R(q) = 1
E  R(conj q) = R(q)^T
"""
import time
import z3
from . import symrot


def _q(p):
    return [z3.Real("%s%s" % (p, c)) for c in "wxyz"]


def _prove(name, hyps, goal, timeout_ms):
    s = z3.Solver()
    s.set("timeout", timeout_ms)
    for h in hyps:
        s.add(h)
    s.add(z3.Not(goal))
    t0 = time.time()
    r = str(s.check())
    return dict(lemma=name, verdict=r, seconds=round(time.time() - t0, 2))


def prove_all(timeout_ms=120000):
    a, b = _q("a"), _q("b")
    ua, ub = symrot.norm2(a) == 1, symrot.norm2(b) == 1
    Ra, Rb = symrot.quat_R(a), symrot.quat_R(b)
    ab = symrot.quat_mul(a, b)
    Rab = symrot.quat_R(ab)
    prod = [[sum(Ra[i][k] * Rb[k][j] for k in range(3)) for j in range(3)] for i in range(3)]
    out = []
    # A is obtained by equational reasoning from three solver-checked facts:
    #   A1  Rh(a) Rh(b) = Rh(a (x) b) for the homogeneous form Rh (a polynomial identity, no hypotheses)
    #   A2  |q| = 1  =>  R(q) = Rh(q)
    #   B   |a (x) b|^2 = |a|^2 |b|^2   (so |a (x) b| = 1 and A2 applies to the product)
    def Rh(q):
        w, x, y, z = q
        return [[w * w + x * x - y * y - z * z, 2 * (x * y - w * z), 2 * (x * z + w * y)],
                [2 * (x * y + w * z), w * w - x * x + y * y - z * z, 2 * (y * z - w * x)],
                [2 * (x * z - w * y), 2 * (y * z + w * x), w * w - x * x - y * y + z * z]]
    Ha, Hb, Hab = Rh(a), Rh(b), Rh(ab)
    hprod = [[sum(Ha[i][k] * Hb[k][j] for k in range(3)) for j in range(3)] for i in range(3)]
    for i in range(3):
        for j in range(3):
            out.append(_prove("A1[%d,%d]" % (i, j), [], hprod[i][j] == Hab[i][j], timeout_ms))
    out.append(_prove("A2", [ua], z3.And([Ra[i][j] == Ha[i][j] for i in range(3) for j in range(3)]), timeout_ms))
    out.append(_prove("B", [], symrot.norm2(ab) == symrot.norm2(a) * symrot.norm2(b), timeout_ms))
    RtR = [[sum(Ra[k][i] * Ra[k][j] for k in range(3)) for j in range(3)] for i in range(3)]
    out.append(_prove("C", [ua], z3.And([RtR[i][j] == (1 if i == j else 0) for i in range(3) for j in range(3)]), timeout_ms))
    det = (Ra[0][0] * (Ra[1][1] * Ra[2][2] - Ra[1][2] * Ra[2][1]) - Ra[0][1] * (Ra[1][0] * Ra[2][2] - Ra[1][2] * Ra[2][0])
           + Ra[0][2] * (Ra[1][0] * Ra[2][1] - Ra[1][1] * Ra[2][0]))
    out.append(_prove("D", [ua], det == 1, timeout_ms))
    Rc = symrot.quat_R(symrot.quat_conj(a))
    out.append(_prove("E", [], z3.And([Rc[i][j] == Ra[j][i] for i in range(3) for j in range(3)]), timeout_ms))
    return out


def lemma_case(col):
    """run as a case of every check that uses the registry"""
    res = prove_all()
    for r in res:
        col.d["obligations"] += 1
        col.d["queries"] += 1
        col.d["solver_s"] += r["seconds"]
        if r["verdict"] == "unsat":
            col.d["discharged"] += 1
        elif r["verdict"] == "unknown":
            col.d["inconclusive"].append(dict(ob="lemma " + r["lemma"], why="solver unknown"))
        else:
            col.d["harness_errors"].append(dict(ob="lemma " + r["lemma"], why="lemma refuted?!"))
    col.d["paths"] += 1
    col.d["distinct_paths"] += 1
    col.d["outcomes"]["lemmas"] = 1
    col.d["lemmas"] = len(res)
    col.sample(dict(lemmas=res))


if __name__ == "__main__":
    for r in prove_all():
        print(r)
