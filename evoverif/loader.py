"""Load evo's own modules from /repo's *current working tree* so that they bind
the symbolic facades instead of numpy / math / scipy.spatial.transform.

* the real evo (and every third-party dependency) is imported first, for the
  replay side and to warm sys.modules;
* evo.* is then re-compiled from the source files under REPO/evo by a meta-path
  finder: float literals become exact rationals (real-mode semantics: 1e-3 is
  1/1000), the module globals get `float`/`int`/`abs`-compatible builtins that
  pass symbolic values through;
* the facade-bound modules are kept in SYM (name -> module); sys.modules is
  restored to the real modules afterwards.  `activate()` swaps the facade-bound
  set in for the duration of a symbolic run (for function-level imports).
"""
import ast
import builtins
import contextlib
import importlib
import importlib.abc
import importlib.machinery
import importlib.util
import os
import sys
import types
from fractions import Fraction

REPO = os.environ.get("EVOVERIF_REPO", "/repo")

SYM = {}
REAL = {}
_state = {"loaded": False}


class _FloatToQ(ast.NodeTransformer):
    def visit_Constant(self, node):
        if isinstance(node.value, float):
            return ast.copy_location(
                ast.Call(func=ast.Name(id="__Q__", ctx=ast.Load()),
                         args=[ast.Constant(value=repr(node.value))], keywords=[]), node)
        return node

    # pattern matching / annotations keep their constants
    def visit_MatchValue(self, node):
        return node

    def visit_BinOp(self, node):
        self.generic_visit(node)
        if isinstance(node.op, ast.Div):
            return ast.copy_location(
                ast.Call(func=ast.Name(id="__DIV__", ctx=ast.Load()),
                         args=[node.left, node.right], keywords=[]), node)
        return node


def _Q(s):
    """a float literal of evo's source as the exact rational it denotes"""
    return Fraction(s)


def _DIV(a, b):
    """true division with real-number semantics: int/int is exact"""
    if type(a) is int and type(b) is int and b != 0:
        return Fraction(a, b)
    if isinstance(b, Fraction) and b == 0:
        # numpy float semantics: x / 0.0 is inf/nan (a warning, not an exception)
        from .symcore import POISON
        return POISON
    return a / b


class _FloatMeta(type):
    def __instancecheck__(cls, x):
        return isinstance(x, (builtins.float, Fraction))

    def __call__(cls, *a):
        from . import symnp
        if not a:
            return 0
        return symnp.to_float(a[0])


class sym_float(metaclass=_FloatMeta):
    """float() for facade-bound evo modules: exact, symbolic passes through"""


class _IntMeta(type):
    def __instancecheck__(cls, x):
        return isinstance(x, builtins.int) or (isinstance(x, Fraction) and False)

    def __call__(cls, *a, **k):
        from .symcore import SymReal, NotEncodable
        if a and isinstance(a[0], SymReal):
            if len(a) == 1 and not k:
                return a[0].__trunc__()       # int(x): truncation toward zero, kept symbolic
            raise NotEncodable("int() of a symbolic value")
        return builtins.int(*a, **k)


class sym_int(metaclass=_IntMeta):
    import numpy as _np
    dtype = _np.dtype("int64")      # numpy's dtype(sym_int) / ndarray.astype(int) inside evo modules: a genuine integer dtype
    del _np


def sym_round(x, *a):
    from .symcore import SymReal, NotEncodable
    if isinstance(x, SymReal):
        raise NotEncodable("round() of a symbolic value")
    return builtins.round(x, *a)


def sym_isinstance(obj, cls):
    import numpy as _np
    from . import symnp
    # a facade array *is* a numpy.ndarray; Fractions count as floats
    return builtins.isinstance(obj, cls)


def _quiet_print(*a, **k):
    """evo's progress output (print) is dropped"""


class _Finder(importlib.abc.MetaPathFinder, importlib.abc.Loader):
    def __init__(self, facades, extra_globals):
        self.facades = facades
        self.extra = extra_globals

    def find_spec(self, name, path, target=None):
        if name != "evo" and not name.startswith("evo."):
            return None
        rel = name.split(".")
        base = os.path.join(REPO, *rel)
        if os.path.isdir(base) and os.path.exists(os.path.join(base, "__init__.py")):
            fn = os.path.join(base, "__init__.py")
            return importlib.util.spec_from_file_location(
                name, fn, loader=self, submodule_search_locations=[base])
        fn = base + ".py"
        if os.path.exists(fn):
            return importlib.util.spec_from_file_location(name, fn, loader=self)
        return None

    def create_module(self, spec):
        return None

    def exec_module(self, module):
        fn = module.__spec__.origin
        with open(fn, "r", encoding="utf-8") as f:
            src = f.read()
        tree = ast.parse(src, filename=fn)
        tree = _FloatToQ().visit(tree)
        ast.fix_missing_locations(tree)
        code = compile(tree, fn, "exec")
        g = module.__dict__
        g["__Q__"] = _Q
        g["__DIV__"] = _DIV
        g["float"] = sym_float
        g["int"] = sym_int
        g["round"] = sym_round
        g["print"] = _quiet_print
        g.update(self.extra)
        exec(code, g)


DEFAULT_MODULES = (
    "evo", "evo.core.transformations", "evo.core.lie_algebra", "evo.core.geometry",
    "evo.core.filters", "evo.core.trajectory", "evo.core.sync", "evo.core.result",
    "evo.core.units", "evo.core.metrics",
)


def load(modules=DEFAULT_MODULES, extra_facades=None, extra_globals=None, warm=()):
    """returns dict name -> facade-bound module (also stored in SYM)"""
    import numpy  # noqa: F401  real ones first
    import scipy.spatial.transform  # noqa: F401
    import math as real_math
    from . import symnp, stubs
    sys.path.insert(0, REPO) if REPO not in sys.path else None
    # real evo for the replay side
    for n in list(modules) + list(warm):
        try:
            REAL[n] = importlib.import_module(n)
        except Exception:          # noqa: BLE001  (optional deps of some tools)
            pass
    real_saved = {k: v for k, v in sys.modules.items() if k == "evo" or k.startswith("evo.")}
    for k in real_saved:
        del sys.modules[k]
    facades = {"numpy": symnp, "math": stubs.make_math(),
               "scipy.spatial.transform": stubs.make_sst()}
    if extra_facades:
        facades.update(extra_facades)
    saved = {k: sys.modules.get(k) for k in facades}
    finder = _Finder(facades, extra_globals or {})
    sys.meta_path.insert(0, finder)
    sys.modules.update(facades)
    try:
        for n in modules:
            SYM[n] = importlib.import_module(n)
        for k, v in list(sys.modules.items()):
            if (k == "evo" or k.startswith("evo.")) and k not in SYM:
                SYM[k] = v
    finally:
        sys.meta_path.remove(finder)
        for k, v in saved.items():
            if v is None:
                sys.modules.pop(k, None)
            else:
                sys.modules[k] = v
        for k in [k for k in sys.modules if k == "evo" or k.startswith("evo.")]:
            del sys.modules[k]
        sys.modules.update(real_saved)
    SYM["__facades__"] = facades
    # lie_algebra imported scipy.spatial.transform as sst *module attribute*:
    la = SYM.get("evo.core.lie_algebra")
    if la is not None:
        la.sst = facades["scipy.spatial.transform"]
        la._USE_DCM_NAME = False
    _state["loaded"] = True
    return SYM


@contextlib.contextmanager
def activate():
    """facade-bound evo modules + facades visible in sys.modules (for lazy
    imports inside evo functions)"""
    saved = {}
    for k, v in list(SYM.items()):
        if k.startswith("__"):
            continue
        saved[k] = sys.modules.get(k)
        sys.modules[k] = v
    try:
        yield
    finally:
        for k, v in saved.items():
            if v is None:
                sys.modules.pop(k, None)
            else:
                sys.modules[k] = v


def sym(name):
    return SYM[name]


def real(name):
    if name not in REAL:
        REAL[name] = importlib.import_module(name)
    return REAL[name]
