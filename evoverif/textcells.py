"""Symbolic text cells for evo's file readers/writers (DESIGN C06/C07).

A numeric cell of a text file is written as a placeholder token bound to (value term, format);
evo's real csv_read_matrix / zipfile / json code runs concretely over the text, and the
facade's float() (astype(float)) maps a placeholder back to dec(fmt, term): the term itself if
the format keeps >= 17 significant digits (round-trip exact for binary64: trusted 17-digit
theorem), else a fresh value constrained only to lie within the format's rounding distance.
"""
import io
import json as _json
import os
import re
from fractions import Fraction

import numpy as _np
import z3

from . import symcore as sc
from . import symnp
from .symcore import SymReal, POISON, ctx

TOKEN = re.compile(r"^@C(\d+)@$")
_CELLS = {}          # token id -> (value, fmt)
_ARRAYS = {}         # npy marker id -> array (object)
_counter = [0]
LOG = []             # (kind, info) of writer calls observed (format used etc.)


def reset():
    _CELLS.clear()
    _ARRAYS.clear()
    _counter[0] = 0
    del LOG[:]


def _new_id():
    _counter[0] += 1
    return _counter[0]


def cell(value, fmt="%.18e"):
    """token for a value written with printf-format fmt"""
    k = _new_id()
    _CELLS[k] = (value, fmt)
    return "@C%07d@" % k      # fixed width, like the "%.18e" cells of evo's writers (file sizes do not depend on the values)


def sig_digits(fmt):
    """significant decimal digits a printf float format keeps (None if not recognised)"""
    m = re.match(r"^%[-+ 0#]*(\d+)?(?:\.(\d+))?([eEfgGrs])$", fmt)
    if not m:
        return None
    prec, conv = m.group(2), m.group(3)
    if conv in "rs":
        return 17                      # repr / str of a float: shortest round-trip
    prec = 6 if prec is None else int(prec)
    if conv in "eE":
        return prec + 1
    if conv in "gG":
        return max(prec, 1)
    return None                        # %f: absolute, not relative precision -> lossy in general


def parse(tok):
    """CELL_PARSER hook: placeholder string -> value (None if not a placeholder)"""
    m = TOKEN.match(tok.strip()) if isinstance(tok, str) else None
    if not m:
        return None
    value, fmt = _CELLS[int(m.group(1))]
    sd = sig_digits(fmt)
    if sd is not None and sd >= 17:
        return value
    # lossy format: the re-read value is some other real near the original
    c = ctx()
    memo = c.memo.setdefault("lossy", {})
    key = int(m.group(1))
    if key not in memo:
        r = c.fresh("reread")
        memo[key] = SymReal(r)
        c.log.append(("lossy_format", fmt))
    return memo[key]


symnp.CELL_PARSER[0] = parse


def _open_target(f, binary=False):
    if hasattr(f, "write"):
        return f, False
    return open(os.fspath(f), "wb" if binary else "w"), True


def savetxt(fname, X, fmt="%.18e", delimiter=" ", newline="\n", header="", footer="", comments="# ", **k):
    A = _np.asarray(symnp._plain(X), dtype=object)
    if A.ndim == 1:
        A = A.reshape(-1, 1)
    LOG.append(("savetxt", dict(fmt=fmt, delimiter=delimiter, shape=A.shape)))
    lines = []
    if header:
        lines.append(comments + header)
    for row in A:
        lines.append(delimiter.join(cell(v, fmt) for v in row))
    text = newline.join(lines) + (newline if lines else "")
    fh, close = _open_target(fname)
    try:
        try:
            fh.write(text)
        except TypeError:
            fh.write(text.encode("utf-8"))
    finally:
        if close:
            fh.close()


def loadtxt(fname, **k):
    if hasattr(fname, "read"):
        text = fname.read()
    else:
        with open(os.fspath(fname)) as f:
            text = f.read()
    if isinstance(text, bytes):
        text = text.decode()
    rows = []
    for line in text.splitlines():
        line = line.split("#")[0].strip()
        if line:
            rows.append([symnp.to_float(t) for t in line.split()])
    if len({len(r) for r in rows}) > 1:
        raise ValueError("Wrong number of columns")
    a = symnp.array(rows)
    ndmin = k.get("ndmin", 0)
    if ndmin == 0 and a.ndim == 2 and 1 in a.shape:
        a = a.reshape(-1) if a.size > 1 else a.reshape(())       # numpy squeezes single rows / columns
    return a


MAGIC = _np.lib.format.MAGIC_PREFIX


def save(file, arr, **k):
    kid = _new_id()
    _ARRAYS[kid] = _np.asarray(symnp._plain(arr), dtype=object).copy()
    LOG.append(("save", dict(shape=_ARRAYS[kid].shape)))
    data = MAGIC + b"\x01\x00" + ("@A%d@" % kid).encode()
    fh, close = _open_target(file, binary=True)
    try:
        fh.write(data)
    finally:
        if close:
            fh.close()


def load(file, **k):
    if hasattr(file, "read"):
        data = file.read()
    else:
        with open(os.fspath(file), "rb") as f:
            data = f.read()
    m = re.search(rb"@A(\d+)@", data)
    if not data.startswith(MAGIC) or not m:
        raise ValueError("Cannot load file containing pickled data / not an array file of this run")
    return _ARRAYS[int(m.group(1))].copy().view(symnp.SymArray)


class JsonFacade:
    """json for facade-bound evo modules: symbolic numbers travel as placeholder strings; python's json
    writes floats with repr (shortest round-trip), hence exact"""

    @staticmethod
    def _enc(o):
        if isinstance(o, (SymReal, Fraction)) or o is POISON:
            return cell(o, "%r")
        if isinstance(o, dict):
            return {k: JsonFacade._enc(v) for k, v in o.items()}
        if isinstance(o, (list, tuple)):
            return [JsonFacade._enc(v) for v in o]
        if isinstance(o, _np.ndarray):
            raise TypeError("Object of type ndarray is not JSON serializable")
        return o

    @staticmethod
    def _dec(o):
        if isinstance(o, str):
            v = parse(o)
            return o if v is None else v
        if isinstance(o, dict):
            return {k: JsonFacade._dec(v) for k, v in o.items()}
        if isinstance(o, list):
            return [JsonFacade._dec(v) for v in o]
        if isinstance(o, float):
            return sc.exact(o)
        return o

    @classmethod
    def dumps(cls, o, **k):
        return _json.dumps(cls._enc(o), **k)

    @classmethod
    def dump(cls, o, fp, **k):
        fp.write(cls.dumps(o, **k))

    @classmethod
    def loads(cls, s, **k):
        return cls._dec(_json.loads(s, **k))

    @classmethod
    def load(cls, fp, **k):
        return cls.loads(fp.read(), **k)

    JSONDecodeError = _json.JSONDecodeError


def write_cells(path, rows, delimiter=" ", fmt="%.18e", prefix_lines=(), newline="\n", bom=False, trailing=None):
    """harness helper: write a text file whose cells are placeholders for the given values.
    rows: list of lists of values (SymReal / numbers / raw strings prefixed with 'raw:')"""
    lines = list(prefix_lines)
    for i, row in enumerate(rows):
        toks = []
        for v in row:
            if isinstance(v, str) and v.startswith("raw:"):
                toks.append(v[4:])
            else:
                toks.append(cell(v, fmt))
        line = delimiter.join(toks)
        if trailing is not None and i in trailing:
            line += delimiter
        lines.append(line)
    data = newline.join(lines) + newline
    with open(path, "wb") as f:
        if bom:
            f.write(b"\xef\xbb\xbf")
        f.write(data.encode("utf-8"))
