"""Contract stubs for C-level / transcendental library calls (DESIGN.md 4)."""
import math as _math
import os
import types
from fractions import Fraction

import numpy as _np
import z3

from . import symcore as sc
from . import symrot
from .symcore import (SymReal, SymBool, NotEncodable, POISON, ctx, toz, exact,
                      is_conc, mk, sym_sqrt)

PI = Fraction(_math.pi)

# --------------------------------------------------------------------------
# acos*  (uninterpreted, axioms instantiated per query in instantiate_acos)
# --------------------------------------------------------------------------
ACOS = z3.Function("acos*", z3.RealSort(), z3.RealSort())


def acos_term(c):
    """theta = acos*(c) as a value"""
    cz = z3.simplify(toz(c))
    if z3.is_rational_value(cz):
        v = sc.zval_to_fraction(cz)
        table = {Fraction(1): 0, Fraction(-1): PI, Fraction(0): PI / 2,
                 Fraction(1, 2): PI / 3, Fraction(-1, 2): 2 * PI / 3}
        if v in table:
            return table[v]
    return SymReal(ACOS(cz))


def _acos_apps(formulas):
    apps = {}
    seen = set()
    st = list(formulas)
    while st:
        x = st.pop()
        i = x.get_id()
        if i in seen:
            continue
        seen.add(i)
        if z3.is_app(x) and x.decl().eq(ACOS):
            apps[i] = x
        st.extend(x.children())
    return list(apps.values())


def instantiate_acos(formulas):
    """quantifier-free instances of the acos* contract for all application
    terms occurring in the query"""
    apps = _acos_apps(formulas)
    out = []
    pi = sc.q_of(PI)
    for a in apps:
        x = a.arg(0)
        out += [z3.Implies(z3.And(x >= -1, x <= 1), z3.And(a >= 0, a <= pi)),
                z3.Implies(x >= 1, a == 0), z3.Implies(x <= -1, a == pi),
                z3.Implies(z3.And(x < 1, x > -1), z3.And(a > 0, a < pi)),
                z3.Implies(x == 0, a == pi / 2),
                z3.Implies(x == sc.q_of(Fraction(1, 2)), a == pi / 3),
                z3.Implies(x == sc.q_of(Fraction(-1, 2)), a == 2 * pi / 3),
                z3.Implies(z3.And(x > 0, 2 * x * x == 1), a == pi / 4),
                z3.Implies(z3.And(x < 0, 2 * x * x == 1), a == 3 * pi / 4),
                z3.Implies(z3.And(x > 0, 4 * x * x == 3), a == pi / 6),
                z3.Implies(z3.And(x < 0, 4 * x * x == 3), a == 5 * pi / 6),
                z3.Implies(x > 0, a < pi / 2), z3.Implies(x < 0, a > pi / 2)]
    c0 = sc.Ctx.cur
    double = bool(c0 is not None and c0.memo.get("angle_values")) and len(apps) <= 12
    for i in range(len(apps)):
        for j in range(i + 1, len(apps)):
            a, b = apps[i], apps[j]
            x, y = a.arg(0), b.arg(0)
            inr = z3.And(x >= -1, x <= 1, y >= -1, y <= 1)
            out += [z3.Implies(z3.And(inr, x < y), a > b),
                    z3.Implies(z3.And(inr, x > y), a < b),
                    z3.Implies(z3.And(inr, x == -y), a == pi - b)]
            if double:
                # acos(2x^2 - 1) = 2 acos(x) on [0, 1], = 2 pi - 2 acos(x) on [-1, 0]  (only on paths that turn an
                # atan2 angle object into a number, e.g. a quaternion-based angle computation)
                for (u, au), (v, av) in (((x, a), (y, b)), ((y, b), (x, a))):
                    out += [z3.Implies(z3.And(v == 2 * u * u - 1, u >= 0, u <= 1), av == 2 * au),
                            z3.Implies(z3.And(v == 2 * u * u - 1, u <= 0, u >= -1), av == 2 * pi - 2 * au)]
    return out


# --------------------------------------------------------------------------
# angle objects (atan2 / sin / cos)
# --------------------------------------------------------------------------
class Angle:
    """an angle known through (cos, sin); supports what evo does with the
    results of atan2: negation, multiplication by 0/1 (axis selection)"""
    __slots__ = ("c", "s")

    def __init__(self, c, s):
        self.c, self.s = c, s

    def __neg__(self):
        return Angle(self.c, -self.s)

    def __mul__(self, o):
        if is_conc(o):
            if o == 0:
                return 0
            if o == 1:
                return self
            if o == -1:
                return -self
            return ScaledAngle(self, exact(o))        # unit conversion of an angle (rad2deg): opaque scaled value
        raise NotEncodable("angle * %r" % (o,))
    __rmul__ = __mul__

    def __add__(self, o):
        if is_conc(o) and o == 0:
            return self
        raise NotEncodable("angle + x")
    __radd__ = __add__

    def __truediv__(self, o):
        raise NotEncodable("angle / x")

    def __deepcopy__(self, memo):
        return self

    def to_real(self):
        """the angle in (-pi, pi] as a number: acos*(c) for s >= 0, -acos*(c) for s < 0 (definition of atan2);
        marks the path so that the double-angle facts of acos* are instantiated too"""
        c0 = sc.Ctx.cur
        if c0 is not None:
            c0.memo["angle_values"] = True
        cz, sz = toz(self.c), toz(self.s)
        return SymReal(z3.If(sz >= 0, ACOS(cz), -ACOS(cz)))

    def __float__(self):
        raise NotEncodable("float(angle)")

    def __format__(self, spec):
        return "<angle>"

    def __repr__(self):
        return "Angle(c=%s, s=%s)" % (self.c, self.s)


class ScaledAngle:
    """k * angle (e.g. degrees of an angle object); only carried around and compared"""
    __slots__ = ("angle", "k")

    def __init__(self, angle, k):
        self.angle, self.k = angle, k

    def __mul__(self, o):
        if is_conc(o):
            return 0 if o == 0 else ScaledAngle(self.angle, self.k * exact(o))
        raise NotEncodable("scaled angle * %r" % (o,))
    __rmul__ = __mul__

    def to_real(self):
        return self.angle.to_real() * self.k

    def __deepcopy__(self, memo):
        return self

    def __format__(self, spec):
        return "<angle*k>"

    def __repr__(self):
        return "ScaledAngle(%r, %s)" % (self.angle, self.k)


def atan2(y, x):
    """angle object: c*h = x, s*h = y, h = sqrt(x^2+y^2); (1,0) if h = 0
    (atan2(0,0) = 0; the sign of a zero is outside real mode)"""
    if isinstance(y, Angle) or isinstance(x, Angle):
        raise NotEncodable("atan2 of angles")
    if y is POISON or x is POISON:
        return POISON
    if not isinstance(x, SymReal) and not isinstance(y, SymReal):
        x, y = Fraction(exact(x)), Fraction(exact(y))
        if x == 0 and y == 0:
            return Angle(1, 0)
        if y == 0:
            return Angle(1 if x > 0 else -1, 0)
        if x == 0:
            return Angle(0, 1 if y > 0 else -1)
    c = ctx()
    memo = c.memo.setdefault("atan2", {})
    key = (symrot._ekey(y), symrot._ekey(x))
    if key in memo:
        return memo[key]
    h = sym_sqrt(x * x + y * y)
    if h is POISON:
        return POISON
    if isinstance(h, SymReal):
        zero = c.branch(h.z == 0)
    else:
        zero = (h == 0)
    if zero:
        r = Angle(1, 0)
    else:
        cc, ss = c.fresh("cos"), c.fresh("sin")
        hz = toz(h)
        c.axiom(cc, cc * hz == toz(x))
        c.axiom(ss, ss * hz == toz(y))
        c.axiom(cc, cc * cc + ss * ss == 1, "cons")
        c.axiom(ss, cc * cc + ss * ss == 1, "cons")
        r = Angle(SymReal(cc), SymReal(ss))
    memo[key] = r
    return r


def _acos_arg(a):
    """x if the value a is the term acos*(x) (then cos a = x, sin a = sqrt(1 - x^2) on [-1, 1])"""
    if isinstance(a, SymReal) and z3.is_app(a.z) and a.z.decl().eq(ACOS):
        return SymReal(a.z.arg(0))
    return None


def _sin(a):
    if a is POISON:
        return POISON
    if isinstance(a, Angle):
        return a.s
    if is_conc(a) and a == 0:
        return 0
    x = _acos_arg(a)
    if x is not None:
        return sym_sqrt(1 - x * x)
    if is_conc(a):
        for c, v in ((PI, 0), (PI / 2, 1)):
            if a == c:
                return v
    raise NotEncodable("sin of a non-angle value")


def _cos(a):
    if a is POISON:
        return POISON
    if isinstance(a, Angle):
        return a.c
    if is_conc(a) and a == 0:
        return 1
    x = _acos_arg(a)
    if x is not None:
        return x
    if is_conc(a):
        for c, v in ((PI, -1), (PI / 2, 0)):
            if a == c:
                return v
    raise NotEncodable("cos of a non-angle value")


def make_math():
    m = types.ModuleType("math")
    m.pi = PI
    m.sqrt = sym_sqrt
    m.atan2 = atan2
    m.sin = _sin
    m.cos = _cos
    m.inf = _math.inf
    m.isclose = _math.isclose
    m.floor = _math.floor
    m.ceil = _math.ceil
    m.fabs = lambda x: abs(x)

    def _missing(name):
        if name.startswith("__"):
            raise AttributeError(name)
        raise NotEncodable("math.%s is not modelled" % name)
    m.__getattr__ = _missing
    return m


# --------------------------------------------------------------------------
# scipy.spatial.transform.Rotation
# --------------------------------------------------------------------------
class Rotation:
    def __init__(self, mats, single):
        self.mats = mats          # list of plain 3x3 object arrays
        self.single = single

    @classmethod
    def from_matrix(cls, m):
        from . import symnp
        M = symnp._plain(m)
        if M.ndim == 2:
            if M.shape != (3, 3):
                raise ValueError("Expected `matrix` to have shape (3, 3) or (N, 3, 3), got %r" % (M.shape,))
            return cls([M], True)
        if M.ndim == 3 and M.shape[1:] == (3, 3):
            return cls([M[i] for i in range(M.shape[0])], False)
        raise ValueError("Expected `matrix` to have shape (3, 3) or (N, 3, 3), got %r" % (M.shape,))
    from_dcm = from_matrix

    @classmethod
    def from_rotvec(cls, v, degrees=False):
        from . import symnp
        V = symnp._plain(v)
        if V.shape != (3,) or degrees:
            raise NotEncodable("from_rotvec shape/degrees")
        nz = [i for i in range(3) if not (is_conc(V[i]) and V[i] == 0)]
        if len(nz) == 0:
            return cls([symnp._plain(symnp.eye(3))], True)
        if len(nz) > 1 or not isinstance(V[nz[0]], Angle):
            raise NotEncodable("from_rotvec of a general vector")
        k = nz[0]
        a = V[k]
        c, s = a.c, a.s
        M = _np.empty((3, 3), dtype=object)
        M.fill(0)
        i, j = (k + 1) % 3, (k + 2) % 3
        M[k, k] = 1
        M[i, i] = c
        M[j, j] = c
        M[i, j] = -s
        M[j, i] = s
        return cls([M], True)

    def as_matrix(self):
        from . import symnp
        if self.single:
            return self.mats[0].copy().view(symnp.SymArray)
        return _np.array(self.mats, dtype=object).view(symnp.SymArray)
    as_dcm = as_matrix

    def inv(self):
        return Rotation([m.T for m in self.mats], self.single)

    def __mul__(self, o):
        from . import symnp
        if len(self.mats) != len(o.mats):
            raise NotEncodable("Rotation broadcasting")
        return Rotation([symnp._plain(symnp.dot(a, b)) for a, b in zip(self.mats, o.mats)],
                        self.single and o.single)

    def __len__(self):
        if self.single:
            raise TypeError("Single rotation has no len().")
        return len(self.mats)

    def as_rotvec(self, degrees=False):
        from . import symnp
        if degrees:
            raise NotEncodable("as_rotvec(degrees)")
        rows = [rotvec_of(m) for m in self.mats]
        if self.single:
            return _np.array(rows[0], dtype=object).view(symnp.SymArray)
        return _np.array(rows, dtype=object).reshape(len(rows), 3).view(symnp.SymArray)

    def magnitude(self):
        rows = [rotation_angle(m) for m in self.mats]
        return rows[0] if self.single else _np.array(rows, dtype=object)

    def as_quat(self, *a, **k):
        raise NotEncodable("Rotation.as_quat")

    def as_euler(self, *a, **k):
        raise NotEncodable("Rotation.as_euler")


def rotation_angle(M):
    """theta = acos*((tr M - 1)/2) for a rotation matrix M"""
    tr = M[0, 0] + M[1, 1] + M[2, 2]
    return acos_term((tr - 1) / 2)


def rotvec_of(M):
    c = ctx()
    memo = c.memo.setdefault("rotvecof", {})
    key = symrot.block_key(M)
    if key in memo:
        return list(memo[key])
    th = rotation_angle(M)
    if is_conc(th) and th == 0:
        v = [0, 0, 0]
    else:
        vs = [c.fresh("rv") for _ in range(3)]
        n2 = vs[0] * vs[0] + vs[1] * vs[1] + vs[2] * vs[2] == toz(th) * toz(th)
        for x in vs:
            c.axiom(x, n2)
        v = [SymReal(x) for x in vs]
    symrot.register_rotvec(v, th)
    memo[key] = tuple(v)
    return list(v)


def make_sst():
    m = types.ModuleType("scipy.spatial.transform")
    m.Rotation = Rotation
    return m


# --------------------------------------------------------------------------
# numpy.linalg.svd / eigh
# --------------------------------------------------------------------------
def svd(A):
    """u, d, v with u = su*R(qu), v = sv*R(qv) (su, sv in {+1,-1} forked),
    d0 >= d1 >= d2 >= 0, u diag(d) v = A, plus the classical invariants."""
    from . import symnp
    if A.shape != (3, 3):
        raise NotEncodable("svd shape %r" % (A.shape,))
    c = ctx()
    c.log.append(("svd", A.copy()))
    k = c.choose(4, "svdsign")
    su, sv = (1, -1)[k // 2], (1, -1)[k % 2]
    qu = [c.fresh("qu") for _ in range(4)]
    qv = [c.fresh("qv") for _ in range(4)]
    d = [c.fresh("sv") for _ in range(3)]
    from . import polyred
    for q in (qu, qv):
        n1 = symrot.norm2(q) == 1
        for x in q:
            c.axiom(x, n1, "cons")
        polyred.unit_hyps_of(c).add(q)
    U = symrot.new_rotation(qu, su)
    V = symrot.new_rotation(qv, sv)
    order = z3.And(d[0] >= d[1], d[1] >= d[2], d[2] >= 0)
    Az = [[toz(A[i, j]) for j in range(3)] for i in range(3)]
    fro = sum(Az[i][j] * Az[i][j] for i in range(3) for j in range(3))
    minors = []
    for i1 in range(3):
        for i2 in range(i1 + 1, 3):
            for j1 in range(3):
                for j2 in range(j1 + 1, 3):
                    mm = Az[i1][j1] * Az[i2][j2] - Az[i1][j2] * Az[i2][j1]
                    minors.append(mm * mm)
    det = (Az[0][0] * (Az[1][1] * Az[2][2] - Az[1][2] * Az[2][1])
           - Az[0][1] * (Az[1][0] * Az[2][2] - Az[1][2] * Az[2][0])
           + Az[0][2] * (Az[1][0] * Az[2][1] - Az[1][1] * Az[2][0]))
    inv = z3.And(d[0] * d[0] + d[1] * d[1] + d[2] * d[2] == fro,
                 d[0] * d[0] * d[1] * d[1] + d[0] * d[0] * d[2] * d[2] + d[1] * d[1] * d[2] * d[2] == sum(minors),
                 det == su * sv * d[0] * d[1] * d[2])
    for x in d:
        c.axiom(x, order, "cons")
        c.axiom(x, inv, "svdinv")
    # factorisation u diag(d) v = A (optional group, sliced)
    Uz = [[toz(U[i, j]) for j in range(3)] for i in range(3)]
    Vz = [[toz(V[i, j]) for j in range(3)] for i in range(3)]
    fac = []
    for i in range(3):
        for j in range(3):
            fac.append(sum(Uz[i][k2] * d[k2] * Vz[k2][j] for k2 in range(3)) == Az[i][j])
    facf = z3.And(fac)
    for x in d + qu + qv:
        c.axiom(x, facf, "svdfac")
    c.memo.setdefault("svd_calls", []).append(dict(A=A, su=su, sv=sv, qu=qu, qv=qv, d=d))
    return (U.view(symnp.SymArray), _np.array([SymReal(x) for x in d], dtype=object).view(symnp.SymArray),
            V.view(symnp.SymArray))


def eigh(K):
    """Only the use in transformations.quaternion_from_matrix is modelled: K is
    the 4x4 symmetric matrix built from a rotation block; the eigenvector of
    the largest eigenvalue is +-(x, y, z, w) of the unit quaternion of that
    rotation.  Returned: w = (0,0,0,1) and V whose last column is that vector
    (the other columns are poison: evo does not read them)."""
    from . import symnp
    if K.shape != (4, 4):
        raise NotEncodable("eigh shape")
    c = ctx()
    # recover the rotation entries from K*3 (K was divided by 3.0):
    # K33 = (m00+m11+m22)/3, K00 = (m00-m11-m22)/3, K11 = (m11-m00-m22)/3, K22=(m22-m00-m11)/3
    k00, k11, k22, k33 = K[0, 0] * 3, K[1, 1] * 3, K[2, 2] * 3, K[3, 3] * 3
    m00 = (k33 + k00) / 2
    m11 = (k33 + k11) / 2
    m22 = (k33 + k22) / 2
    s01, s02, s12 = K[1, 0] * 3, K[2, 0] * 3, K[2, 1] * 3       # m01+m10, m02+m20, m12+m21
    d21, d02, d10 = K[3, 0] * 3, K[3, 1] * 3, K[3, 2] * 3       # m21-m12, m02-m20, m10-m01
    m01, m10 = (s01 - d10) / 2, (s01 + d10) / 2
    m02, m20 = (s02 + d02) / 2, (s02 - d02) / 2
    m12, m21 = (s12 - d21) / 2, (s12 + d21) / 2
    M = _np.array([[m00, m01, m02], [m10, m11, m12], [m20, m21, m22]], dtype=object)
    for i in range(3):
        for j in range(3):
            v = M[i, j]
            if isinstance(v, SymReal):
                M[i, j] = mk(z3.simplify(v.z))
    q = quaternion_of_rotation(M)
    V = _np.empty((4, 4), dtype=object)
    V.fill(POISON)
    V[0, 3], V[1, 3], V[2, 3], V[3, 3] = q[1], q[2], q[3], q[0]
    w = _np.array([0, 0, 0, 1], dtype=object)
    return w.view(symnp.SymArray), V.view(symnp.SymArray)


def quaternion_of_rotation(M):
    """(w,x,y,z), |q| = 1, R(q) = M; sign arbitrary (fresh sign)."""
    c = ctx()
    memo = c.memo.setdefault("qofr", {})
    key = symrot.block_key(M)
    if key in memo:
        return memo[key]
    r = symrot.lookup(M)
    if r is not None and r.sigma == 1:
        # q = +-p : fresh sign variable sg in {1,-1}
        from . import polyred
        # eigenvector sign: +-p.  Deliberate cut (DESIGN 2.5): the stub returns the representative with a
        # non-negative scalar part, so evo's own "if q[0] < 0: negate" is not forked over for every pose
        # (quaternion sign is not observable in any property: "up to sign").
        sg = c.fresh("qsign")
        polyred.unit_hyps_of(c).add_sign(sg)
        nonneg = sg * r.q[0] >= 0
        try:
            nonneg = polyred.rewrite(c, nonneg)      # same normal form as evo's own comparison q[0] < 0
        except polyred.NotPolynomial:
            pass
        c.axiom(sg, z3.And(z3.Or(sg == 1, sg == -1), nonneg))
        q = [mk(z3.simplify(sg * p)) for p in r.q]
    else:
        if os.environ.get("EVOVERIF_DEBUG"):
            print("quaternion_of_rotation fallback: lookup=%r sigma=%r entry00=%s nfkey=%s" % (
                r is not None, getattr(r, "sigma", None), str(M[0, 0])[:300], symrot.nf_key(M) is not None))
        qs = [c.fresh("qm") for _ in range(4)]
        R = symrot.quat_R(qs)
        # the eigenvector of the largest eigenvalue of K(M) is the same for k*M, k > 0: for a scaled rotation
        # block (Sim(3) poses) the result is the unit quaternion of the rotation part.  k = 1 when the block
        # is built from unit quaternions only; otherwise k is a fresh positive value.
        # (For a block that is no scaled rotation the constraints are unsatisfiable and the path fails its
        # reachability check: reported, never silently passed.)
        from . import polyred as _pr
        hyps = _pr.unit_hyps_of(c)
        qvars = set()
        for w_, (xyz_, q_) in hyps.lead.items():
            qvars.add(w_)
            qvars.update(xyz_)
        qvars.update(c.memo.get("defs", {}))
        mvars = set()
        for i in range(3):
            for j in range(3):
                mvars |= sc.term_vars(toz(M[i, j]))
        unit_row = mvars <= qvars
        if not unit_row and len(mvars) <= 6:
            # few atoms (e.g. cos/sin of one angle): ask the solver whether the first row has unit norm
            rr = toz(M[0, 0]) * toz(M[0, 0]) + toz(M[0, 1]) * toz(M[0, 1]) + toz(M[0, 2]) * toz(M[0, 2])
            r_, _ = c.solve([rr != 1], kind="certificate", timeout_ms=1000)
            unit_row = (r_ == "unsat")
        if unit_row:
            # built from unit quaternions (and definitional atoms) only, or first row shown to have unit norm:
            # a rotation the registry does not know; k = 1
            eqs = [R[i][j] == toz(M[i, j]) for i in range(3) for j in range(3)]
        else:
            k = c.fresh("qscale")
            eqs = [k > 0] + [k * R[i][j] == toz(M[i, j]) for i in range(3) for j in range(3)]
        ax = z3.And([symrot.norm2(qs) == 1, qs[0] >= 0] + eqs)
        from . import polyred
        for x in qs:
            c.axiom(x, ax)
        polyred.unit_hyps_of(c).add(qs)
        q = [SymReal(x) for x in qs]
    memo[key] = q
    return q


sc.QUERY_HOOKS.append(instantiate_acos)


def _acos_branch_abstraction(ctx, extra, groups):
    """branch feasibility with every acos* application replaced by a free value in [0, pi] (and only the
    constraints that mention such applications kept): a sound over-approximation that avoids non-linear
    model search for trace polynomials"""
    import time
    apps = _acos_apps(extra)
    if not apps:
        return None
    pool = ctx.assumptions + ctx.path_formulas()
    apps = _acos_apps(pool + list(extra))
    sub = [(a, z3.Real("acosabs!%d" % a.get_id())) for a in apps]
    ex = [z3.substitute(f, *sub) for f in extra]
    vs = set()
    for f in ex:
        vs |= sc.term_vars(f)
    keep = []
    for f in pool:
        g = z3.substitute(f, *sub)
        gv = sc.term_vars(g)
        if gv and gv <= vs | {str(v) for _, v in sub}:
            keep.append(g)
    pi = sc.q_of(PI)
    s = z3.SimpleSolver()
    s.set("timeout", 2000)
    for _, v in sub:
        s.add(v >= 0, v <= pi)
    for f in keep + ex:
        s.add(f)
    t0 = time.time()
    r = str(s.check())
    ctx.stats.add("branch-abstract", time.time() - t0)
    if r == "unknown":
        return None
    return r


sc.BRANCH_ABSTRACTIONS.append(_acos_branch_abstraction)
