"""Symbolic values, path explorer and obligation manager.

A Python/numpy float is modelled as a mathematical real ("real mode", see
DESIGN.md 2.2).  Concrete numbers are exact (int / Fraction); symbolic numbers
are SymReal wrappers around z3 Real terms.  A comparison of symbolic values
gives a SymBool; when the code under test branches on it, ``__bool__`` asks
the explorer (decision trail, DFS by re-execution).
"""
import math
import os
import sys
import time
import fractions
import z3

Fraction = fractions.Fraction
sys.setrecursionlimit(max(sys.getrecursionlimit(), 20000))


class NotEncodable(Exception):
    """The code under test needs something the facade does not model."""


class Inconclusive(Exception):
    """Solver said unknown / timed out where a verdict is required."""


class PathBudget(Exception):
    pass


# --------------------------------------------------------------------------
# poison (IEEE NaN/inf stand-in for domain errors in real mode)
# --------------------------------------------------------------------------
class _Poison:
    """Result of a domain error (division by zero, sqrt of a negative, ...).
    Arithmetic propagates it, every ordered comparison with it is False."""
    __slots__ = ()

    def _p(self, *a):
        if a and hasattr(a[0], "shape") and getattr(a[0], "shape", ()) != ():
            import numpy as _np
            r = _np.empty(a[0].shape, dtype=object)
            r.fill(self)
            return r.view(type(a[0])) if isinstance(a[0], _np.ndarray) else r
        return self
    __add__ = __radd__ = __sub__ = __rsub__ = __mul__ = __rmul__ = _p
    __truediv__ = __rtruediv__ = __neg__ = __pos__ = __abs__ = __pow__ = _p
    __rpow__ = _p

    def _f(self, o):
        return False
    __lt__ = __le__ = __gt__ = __ge__ = __eq__ = _f

    def __ne__(self, o):
        return True

    def __hash__(self):
        return 0x7ff8

    def __deepcopy__(self, memo):
        return self

    def __copy__(self):
        return self

    def __repr__(self):
        return "POISON"

    def __format__(self, spec):
        return "nan"

    def sqrt(self):
        return self


POISON = _Poison()


# --------------------------------------------------------------------------
# context
# --------------------------------------------------------------------------
class Stats:
    def __init__(self):
        self.queries = 0
        self.solver_s = 0.0
        self.unknown = 0
        self.by_kind = {}

    def add(self, kind, dt):
        self.queries += 1
        self.solver_s += dt
        k = self.by_kind.setdefault(kind, [0, 0.0])
        k[0] += 1
        k[1] += dt


LIGHT_GROUPS = ("def", "cons")
BRANCH_ABSTRACTIONS = []      # functions(ctx, extra, groups) -> 'sat' | 'unsat' | None
QUERY_HOOKS = []      # functions(list of formulas) -> list of extra formulas
DUMP_DIR = os.environ.get("EVOVERIF_DUMP")
_dump_n = [0]


def _dump(solver, kind):
    _dump_n[0] += 1
    os.makedirs(DUMP_DIR, exist_ok=True)
    with open(os.path.join(DUMP_DIR, "%s_%05d_%d.smt2" % (kind, _dump_n[0], os.getpid())), "w") as f:
        f.write(solver.to_smt2())


class Ctx:
    """State of one path execution."""
    cur = None

    def __init__(self, assumptions=(), plan=(), timeout_ms=20000, stats=None,
                 seed=0, branch_timeout_ms=6000):
        self.assumptions = list(assumptions)
        self.plan = list(plan)
        self.trail = []          # [(formula, forced)] decisions taken, in order
        self.choices = []        # [index] per decision (for re-execution)
        self.pending = []        # alternative plans discovered on this path
        self.axioms = []         # [(owner_name, formula, group)]
        self.timeout_ms = timeout_ms
        self.branch_timeout_ms = min(branch_timeout_ms, timeout_ms)
        self.stats = stats if stats is not None else Stats()
        self.seed = seed
        self.nfresh = 0
        self.memo = {}           # per-path memo tables of stubs
        self.log = []            # free-form notes of stubs (calls observed)

    # -- fresh symbols ------------------------------------------------------
    def fresh(self, name, sort="real"):
        self.nfresh += 1
        n = "%s!%d" % (name, self.nfresh)
        if sort == "real":
            return z3.Real(n)
        if sort == "int":
            return z3.Int(n)
        return z3.Bool(n)

    def axiom(self, owner, formula, group="def"):
        """owner: the z3 constant (or its name) the formula defines/constrains."""
        name = owner if isinstance(owner, str) else owner.decl().name()
        self.axioms.append((name, formula, group))

    # -- solving ------------------------------------------------------------
    def path_formulas(self):
        return [f for f, forced in self.trail if not forced]

    def solve(self, extra, kind="goal", slice_on=True, timeout_ms=None,
              groups=None, full=False):
        """check assumptions + path + axioms(sliced) + extra.
        returns ('sat'|'unsat'|'unknown', model|None)"""
        extra = list(extra)
        if kind == "branch" and BRANCH_ABSTRACTIONS:
            # feasibility abstraction (sound over-approximation): e.g. acos* applications as free values in
            # [0, pi]; "sat" there is accepted as feasible, "unsat" there is unsat
            for ab in BRANCH_ABSTRACTIONS:
                r0 = ab(self, extra, groups)
                if r0 is not None:
                    return r0, None
        t0 = time.time()
        tmo = int(timeout_ms or self.timeout_ms)
        ax = [(o, f) for o, f, g in self.axioms if groups is None or g in groups]
        if slice_on and not full:
            cons = sliced(self.assumptions + self.path_formulas(), ax, extra)
        else:
            cons = self.assumptions + self.path_formulas() + [f for _, f in ax]
        for h in QUERY_HOOKS:
            cons = cons + h(cons + extra)
        cons, extra = self._without_divisions(cons, extra)
        # portfolio: the SMT core (SimpleSolver) notices propositional / linear conflicts at once where
        # nlsat's CAD can time out on them; the default solver (nlsat tactic) decides the genuinely
        # non-linear queries.  A fresh solver per query (incremental use makes NRA queries unknown).
        r, m = z3.unknown, None
        for mk_solver, budget in ((z3.SimpleSolver, 300), (z3.Solver, tmo), (z3.SimpleSolver, min(tmo, 8000))):
            s = mk_solver()
            s.set("timeout", int(budget))
            s.set("random_seed", self.seed)
            for c in cons:
                s.add(c)
            for e in extra:
                s.add(e)
            if DUMP_DIR:
                _dump(s, kind)
            r = s.check()
            if r != z3.unknown:
                m = s.model() if r == z3.sat else None
                break
        self.stats.add(kind, time.time() - t0)
        if r == z3.unknown:
            self.stats.unknown += 1
        return str(r), m

    def _without_divisions(self, cons, extra):
        """x / d  ->  x * w_d  with  d * w_d == 1, for every denominator d that the path's own constraints
        exclude from being zero (decided with '/' abstracted to an uninterpreted function: an over-approximation,
        so 'unsat' there is unsat).  Equisatisfiable, and nlsat decides the result far faster than terms with
        division.  Other divisions stay as they are."""
        if not any(_has_div(f) for f in cons) and not any(_has_div(f) for f in extra):
            return cons, extra
        dens = {}
        for f in list(cons) + list(extra):
            for d in _denominators(f):
                dens.setdefault(d.get_id(), d)
        ok = self.memo.setdefault("nonzero_den", {})
        todo = [d for k, d in dens.items() if k not in ok]
        if todo:
            base = [_div_abstract(f) for f in self.assumptions + self.path_formulas()]
            for d in todo:
                r = z3.unknown
                for mk_solver, budget in ((z3.SimpleSolver, 300), (z3.Solver, 3000)):
                    sv = mk_solver()
                    sv.set("timeout", budget)
                    for c in base:
                        sv.add(c)
                    sv.add(d == 0)
                    r = sv.check()
                    if r != z3.unknown:
                        break
                if r == z3.unsat:
                    ok[d.get_id()] = d          # stays true: constraints only grow along a path
        good = {k for k in dens if k in ok}
        if not good:
            return cons, extra
        inv = {}
        cons2 = [_div_replace(f, good, inv) for f in cons]
        extra2 = [_div_replace(f, good, inv) for f in extra]
        return cons2 + [d * w == 1 for d, w in inv.values()], extra2

    # -- decisions ----------------------------------------------------------
    def decide(self, alts, what="branch"):
        """alts: list of z3 Bool, mutually exclusive & exhaustive.  Returns the
        index chosen on this path; schedules the feasible alternatives."""
        i = len(self.choices)
        if i < len(self.plan):
            k, forced = self.plan[i]
            self.choices.append((k, forced))
            self.trail.append((alts[k], forced))
            return k
        feas = []
        heavy = any(g not in LIGHT_GROUPS for _, _, g in self.axioms)
        for k, a in enumerate(alts):
            if len(alts) == 2 and k == 1 and not feas:
                # the first of two exhaustive alternatives is infeasible: the path continues with the second
                # (the prefix is feasible or over-approximated as such), no query needed
                feas.append(k)
                break
            if heavy:
                # abstraction first: without the heavy stub invariants (unsat there is unsat; a sat there
                # only makes the explorer visit a possibly infeasible path, which is sound)
                r, _ = self.solve([a], kind="branch", timeout_ms=self.branch_timeout_ms, groups=LIGHT_GROUPS)
            else:
                r, _ = self.solve([a], kind="branch", timeout_ms=self.branch_timeout_ms)
            # "unknown" is treated as feasible: visiting a possibly infeasible path is sound (its
            # obligations still have to be discharged), whereas dropping a feasible one would not be
            if r == "unknown":
                self.stats.by_kind.setdefault("branch-unknown-as-feasible", [0, 0.0])[0] += 1
            if r != "unsat":
                feas.append(k)
        if not feas:
            # path itself infeasible (slicing over-approximates feasibility)
            raise InfeasiblePath()
        forced = len(feas) == 1
        prefix = list(self.choices)
        for k in feas[1:]:
            self.pending.append(prefix + [(k, False)])
        k = feas[0]
        self.choices.append((k, forced))
        self.trail.append((alts[k], forced))
        return k

    def branch(self, cond):
        cond = z3.simplify(cond) if not z3.is_bool(cond) else cond
        if z3.is_true(cond):
            return True
        if z3.is_false(cond):
            return False
        return self.decide([cond, z3.Not(cond)]) == 0

    def choose(self, n, name="choice"):
        """pure nondeterministic choice among n alternatives (fork)"""
        v = z3.Int("%s!c%d" % (name, len(self.choices)))
        k = self.decide([v == j for j in range(n)], what=name)
        return k


class InfeasiblePath(Exception):
    pass


class PoisonValue(TypeError):
    """a poison value (IEEE nan / inf of the real code) reached a place that needs a number"""


_DIV_MEMO = {}
_DIVUF = z3.Function("div!uf", z3.RealSort(), z3.RealSort(), z3.RealSort())


def _div_info(t):
    """(has non-constant division, tuple of division-free denominators) of a term; memoised by ast id;
    iterative post-order (terms can be thousands of levels deep)"""
    key = t.get_id()
    hit = _DIV_MEMO.get(key)
    if hit is not None and hit[0].eq(t):
        return hit[1], hit[2]
    if len(_DIV_MEMO) > 400000:
        _DIV_MEMO.clear()
    stack = [(t, False)]
    while stack:
        x, done = stack.pop()
        k = x.get_id()
        h0 = _DIV_MEMO.get(k)
        if h0 is not None and h0[0].eq(x):
            continue
        ch = x.children() if z3.is_app(x) else []
        if not done and ch:
            stack.append((x, True))
            for c in ch:
                hc = _DIV_MEMO.get(c.get_id())
                if hc is None or not hc[0].eq(c):
                    stack.append((c, False))
            continue
        has, dens = False, []
        for c in ch:
            _, hc, dc = _DIV_MEMO[c.get_id()]
            has = has or hc
            dens.extend(dc)
        if ch and x.decl().kind() == z3.Z3_OP_DIV and not z3.is_rational_value(ch[1]):
            has = True
            if not _DIV_MEMO[ch[1].get_id()][1]:
                dens.append(ch[1])
        seen, uniq = set(), []
        for d in dens:
            if d.get_id() not in seen:
                seen.add(d.get_id())
                uniq.append(d)
        _DIV_MEMO[k] = (x, has, tuple(uniq))
    _, has, dens = _DIV_MEMO[key]
    return has, dens


_NONCONST_DIV = [0]      # number of divisions by a non-numeral created through the z3 python API in this process


def _hook_division():
    def wrap(name, den_is_self):
        orig = getattr(z3.ArithRef, name, None)
        if orig is None:
            return

        def f(self, other):
            d = self if den_is_self else other
            if not isinstance(d, (int, float, Fraction)) and not (z3.is_expr(d) and (z3.is_rational_value(d) or z3.is_int_value(d))):
                _NONCONST_DIV[0] += 1
            return orig(self, other)
        setattr(z3.ArithRef, name, f)
    for n, s_ in (("__truediv__", False), ("__div__", False), ("__rtruediv__", True), ("__rdiv__", True)):
        wrap(n, s_)


_hook_division()


def _has_div(t):
    if not _NONCONST_DIV[0]:
        return False          # no such division has been built at all (the usual case): no traversal
    return _div_info(t)[0]


def _denominators(t):
    return _div_info(t)[1]


def _div_abstract(t, memo=None):
    if not _has_div(t):
        return t
    memo = {} if memo is None else memo
    key = t.get_id()
    if key in memo:
        return memo[key]
    ch = [_div_abstract(c, memo) for c in t.children()]
    if t.decl().kind() == z3.Z3_OP_DIV and not z3.is_rational_value(t.arg(1)):
        out = _DIVUF(ch[0], ch[1])
    else:
        out = t.decl()(*ch)
    memo[key] = out
    return out


_DIV_REPL = {}


def _div_replace(t, good, inv):
    if not _has_div(t):
        return t
    key = (t.get_id(), tuple(sorted(good)))
    hit = _DIV_REPL.get(key)
    if hit is not None and hit[0].eq(t):
        for k, dw in hit[2].items():
            inv.setdefault(k, dw)
        return hit[1]
    used = {}
    out = _div_replace_rec(t, good, used, {})
    if len(_DIV_REPL) > 200000:
        _DIV_REPL.clear()
    _DIV_REPL[key] = (t, out, used)
    for k, dw in used.items():
        inv.setdefault(k, dw)
    return out


def _div_replace_rec(t, good, used, memo):
    if not _has_div(t):
        return t
    key = t.get_id()
    if key in memo:
        return memo[key]
    ch = [_div_replace_rec(c, good, used, memo) for c in t.children()]
    if t.decl().kind() == z3.Z3_OP_DIV and t.arg(1).get_id() in good:
        d = t.arg(1)
        if d.get_id() not in used:
            used[d.get_id()] = (d, z3.Real("inv!den!%d" % d.get_id()))
        out = ch[0] * used[d.get_id()][1]
    else:
        out = t.decl()(*ch)
    memo[key] = out
    return out


def ctx():
    c = Ctx.cur
    if c is None:
        raise RuntimeError("no symbolic context active")
    return c


# --------------------------------------------------------------------------
# slicing
# --------------------------------------------------------------------------
_VARS_MEMO = {}


def term_vars(e):
    """names of uninterpreted constants in a z3 term (memoised on ast id)"""
    k = e.get_id()
    r = _VARS_MEMO.get(k)
    if r is not None and r[0].eq(e):
        return r[1]
    acc = set()
    seen = set()
    st = [e]
    while st:
        x = st.pop()
        i = x.get_id()
        if i in seen:
            continue
        seen.add(i)
        if z3.is_const(x):
            if x.decl().kind() == z3.Z3_OP_UNINTERPRETED:
                acc.add(x.decl().name())
        else:
            st.extend(x.children())
    fs = frozenset(acc)
    _VARS_MEMO[k] = (e, fs)
    return fs


def sliced(assumps, defs, goals):
    """Backward cone of the goals through definitional axioms (by owner), plus
    every assumption/path formula that mentions a variable of that cone or
    that shares variables transitively with such a formula."""
    vs = set()
    for g in goals:
        vs |= term_vars(g)
    dv = [(o, f, term_vars(f)) for o, f in defs]
    av = [(a, term_vars(a)) for a in assumps]
    keepd = [False] * len(dv)
    keepa = [False] * len(av)
    changed = True
    while changed:
        changed = False
        for i, (o, f, v) in enumerate(dv):
            if not keepd[i] and o in vs:
                keepd[i] = True
                if not v <= vs:
                    vs |= v
                changed = True
        for i, (a, v) in enumerate(av):
            if not keepa[i] and (not v or (v & vs)):
                keepa[i] = True
                if not v <= vs:
                    vs |= v
                    changed = True
    out = [a for (a, _), k in zip(av, keepa) if k]
    out += [f for (o, f, v), k in zip(dv, keepd) if k]
    return out


# --------------------------------------------------------------------------
# conversion helpers
# --------------------------------------------------------------------------
def q_of(fr):
    fr = Fraction(fr)
    if fr.denominator == 1:
        return z3.RealVal(fr.numerator)
    return z3.Q(fr.numerator, fr.denominator)


def toz(v):
    """python number or SymReal -> z3 Real term"""
    if isinstance(v, SymReal):
        return v.z
    if isinstance(v, bool):
        return z3.RealVal(1 if v else 0)
    if isinstance(v, int):
        return z3.RealVal(v)
    if isinstance(v, Fraction):
        return q_of(v)
    if isinstance(v, Surd):
        return v.zterm()
    if isinstance(v, float):
        if v != v or v in (math.inf, -math.inf):
            raise NotEncodable("non-finite float")
        return q_of(Fraction(v))
    if hasattr(v, "__index__"):
        return z3.RealVal(int(v))
    if hasattr(v, "dtype"):       # numpy scalar
        return toz(v.item())
    if v is POISON:
        raise PoisonValue("nan/inf where a number is required")
    if hasattr(v, "to_real"):          # angle objects of the atan2 stub
        return toz(v.to_real())
    raise TypeError("cannot convert %r to a real term" % (type(v),))


def is_conc(v):
    return (isinstance(v, (int, float, Fraction)) and not isinstance(v, bool)) \
        or (hasattr(v, "dtype") and getattr(v, "ndim", 1) == 0)


def exact(v):
    """concrete number -> int/Fraction"""
    if isinstance(v, bool):
        return int(v)
    if isinstance(v, (int, Fraction, Surd)):
        return v
    if isinstance(v, float):
        if v != v or v in (math.inf, -math.inf):
            return POISON
        f = Fraction(v)
        return f.numerator if f.denominator == 1 else f
    if hasattr(v, "item"):
        return exact(v.item())
    return v


def mk(z):
    """wrap a z3 Real term; numerals become exact python numbers"""
    if z3.is_rational_value(z):
        f = Fraction(z.numerator_as_long(), z.denominator_as_long())
        return f.numerator if f.denominator == 1 else f
    return SymReal(z)


def zval_to_fraction(v):
    """z3 numeral / algebraic -> Fraction (algebraic: 30 digit approximation)"""
    if z3.is_rational_value(v):
        return Fraction(v.numerator_as_long(), v.denominator_as_long())
    if z3.is_algebraic_value(v):
        a = v.approx(30)
        return Fraction(a.numerator_as_long(), a.denominator_as_long())
    if z3.is_int_value(v):
        return Fraction(v.as_long())
    raise ValueError("not a numeral: %s" % v)


# --------------------------------------------------------------------------
# quadratic surds a + b*sqrt(c): exact value of sqrt of a non-square rational
# --------------------------------------------------------------------------
class Surd:
    """a + b*sqrt(c), a, b rational, c a positive non-square rational.  Only
    what evo does with such constants is supported (scaling, products)."""
    __slots__ = ("a", "b", "c")

    def __init__(self, a, b, c):
        self.a, self.b, self.c = Fraction(a), Fraction(b), Fraction(c)

    @staticmethod
    def make(a, b, c):
        if b == 0:
            a = Fraction(a)
            return a.numerator if a.denominator == 1 else a
        return Surd(a, b, c)

    def __float__(self):
        return float(self.a) + float(self.b) * math.sqrt(float(self.c))

    def _other(self, o):
        if isinstance(o, Surd):
            if o.c != self.c:
                raise NotEncodable("surds over different radicands")
            return o.a, o.b
        if isinstance(o, (int, Fraction)) and not isinstance(o, bool):
            return Fraction(o), Fraction(0)
        if isinstance(o, float):
            return Fraction(o), Fraction(0)
        return None

    def __mul__(self, o):
        ab = self._other(o)
        if ab is None:
            return NotImplemented
        a2, b2 = ab
        return Surd.make(self.a * a2 + self.b * b2 * self.c, self.a * b2 + self.b * a2, self.c)
    __rmul__ = __mul__

    def __add__(self, o):
        ab = self._other(o)
        if ab is None:
            return NotImplemented
        return Surd.make(self.a + ab[0], self.b + ab[1], self.c)
    __radd__ = __add__

    def __neg__(self):
        return Surd(-self.a, -self.b, self.c)

    def __sub__(self, o):
        ab = self._other(o)
        if ab is None:
            return NotImplemented
        return Surd.make(self.a - ab[0], self.b - ab[1], self.c)

    def __rsub__(self, o):
        return (-self) + o

    def inverse(self):
        d = self.a * self.a - self.b * self.b * self.c
        return Surd.make(self.a / d, -self.b / d, self.c)

    def __truediv__(self, o):
        if isinstance(o, Surd):
            return self * o.inverse()
        ab = self._other(o)
        if ab is None:
            return NotImplemented
        return Surd.make(self.a / ab[0], self.b / ab[0], self.c)

    def __rtruediv__(self, o):
        return self.inverse() * o

    def __pow__(self, k):
        if k == 2:
            return self * self
        raise NotEncodable("surd power")

    def __abs__(self):
        return self if float(self) >= 0 else -self

    def _cmp(self, o):
        return float(self) - float(o)

    def __lt__(self, o): return self._cmp(o) < 0
    def __le__(self, o): return self._cmp(o) <= 0
    def __gt__(self, o): return self._cmp(o) > 0
    def __ge__(self, o): return self._cmp(o) >= 0

    def __eq__(self, o):
        if isinstance(o, Surd):
            return (self.a, self.b, self.c) == (o.a, o.b, o.c)
        return False

    def __ne__(self, o):
        return not self.__eq__(o)

    def __hash__(self):
        return hash((self.a, self.b, self.c))

    def __deepcopy__(self, memo):
        return self

    def __repr__(self):
        return "Surd(%s + %s*sqrt(%s))" % (self.a, self.b, self.c)

    def __format__(self, spec):
        return format(float(self), spec)

    def zterm(self):
        """z3 term: a + b*r with r the memoised positive root variable of c"""
        c = ctx()
        memo = c.memo.setdefault("sqrtc", {})
        if self.c not in memo:
            r = c.fresh("sqrtc")
            c.axiom(r, z3.And(r > 0, r * r == q_of(self.c)))
            memo[self.c] = r
        return q_of(self.a) + q_of(self.b) * memo[self.c]


# --------------------------------------------------------------------------
# symbolic booleans / reals
# --------------------------------------------------------------------------
class SymBool:
    __slots__ = ("z",)

    def __init__(self, z):
        self.z = z

    def __bool__(self):
        return ctx().branch(self.z)

    def __and__(self, o):
        if isinstance(o, SymBool):
            return SymBool(z3.And(self.z, o.z))
        if isinstance(o, (bool, int)) or hasattr(o, "dtype"):
            return self if o else False
        return NotImplemented
    __rand__ = __and__

    def __or__(self, o):
        if isinstance(o, SymBool):
            return SymBool(z3.Or(self.z, o.z))
        if isinstance(o, (bool, int)) or hasattr(o, "dtype"):
            return True if o else self
        return NotImplemented
    __ror__ = __or__

    def __invert__(self):
        return SymBool(z3.Not(self.z))

    def __eq__(self, o):
        if isinstance(o, SymBool):
            return SymBool(self.z == o.z)
        if isinstance(o, bool):
            return self if o else ~self
        return NotImplemented
    __hash__ = None

    def __deepcopy__(self, memo):
        return self

    def __repr__(self):
        return "SB(%s)" % self.z


def boolz(b):
    if isinstance(b, SymBool):
        return b.z
    return z3.BoolVal(bool(b))


class SymReal:
    """value = k * t  (k exact scalar: int/Fraction/Surd; t a z3 Real term).  The
    scalar is tracked separately so that constant factors (sqrt(2) in
    quaternion_matrix, unit factors) combine exactly instead of growing terms."""
    __slots__ = ("_t", "_k", "_z")

    def __init__(self, z, k=1):
        self._t = z
        self._k = k
        self._z = z if (isinstance(k, int) and k == 1) else None

    @property
    def z(self):
        if self._z is None:
            k = self._k
            self._z = (k.zterm() if isinstance(k, Surd) else q_of(k)) * self._t
        return self._z

    # arithmetic ----------------------------------------------------------
    def _coerce(self, o):
        if isinstance(o, SymReal):
            return o.z
        if o is POISON:
            return POISON
        if is_conc(o):
            return toz(o)
        if isinstance(o, Surd):
            return o.zterm()
        return None

    def __add__(self, o):
        if is_conc(o) and o == 0:
            return self
        b = self._coerce(o)
        if b is None:
            return NotImplemented
        if b is POISON:
            return POISON
        return SymReal(self.z + b)
    __radd__ = __add__

    def __sub__(self, o):
        if is_conc(o) and o == 0:
            return self
        b = self._coerce(o)
        if b is None:
            return NotImplemented
        if b is POISON:
            return POISON
        if isinstance(o, SymReal) and o.z.eq(self.z):
            return Fraction(0)
        return SymReal(self.z - b)

    def __rsub__(self, o):
        b = self._coerce(o)
        if b is None:
            return NotImplemented
        if b is POISON:
            return POISON
        if is_conc(o) and o == 0:
            return SymReal(-self.z)
        return SymReal(b - self.z)

    def __mul__(self, o):
        if isinstance(o, Surd):
            return SymReal(self._t, self._k * o)
        if is_conc(o):
            if o == 0:
                return Fraction(0)
            if o == 1:
                return self
            return SymReal(self._t, self._k * exact(o))
        if o is POISON:
            return POISON
        if isinstance(o, SymReal):
            k = self._k * o._k
            if o._t.eq(self._t) and Ctx.cur is not None:
                # sqrt(x) * sqrt(x) = x for results of the sqrt stub
                rad = Ctx.cur.memo.get("radicand", {}).get(self._t.get_id())
                if rad is not None:
                    return SymReal(rad, k)
            return SymReal(self._t * o._t, k)
        return NotImplemented
    __rmul__ = __mul__

    def __truediv__(self, o):
        if isinstance(o, Surd):
            return SymReal(self._t, self._k * o.inverse())
        if is_conc(o):
            if o == 0:
                return POISON
            if o == 1:
                return self
            return SymReal(self._t, self._k * (1 / Fraction(exact(o))))
        if o is POISON:
            return POISON
        if isinstance(o, SymReal):
            return sym_div(self, o)
        return NotImplemented

    def __rtruediv__(self, o):
        if o is POISON:
            return POISON
        if is_conc(o):
            return sym_div(exact(o), self)
        return NotImplemented

    def __neg__(self):
        return SymReal(self._t, -self._k)

    def __pos__(self):
        return self

    def __floordiv__(self, o):
        if is_conc(o) and o == 1:
            return SymReal(z3.ToReal(z3.ToInt(self.z)))
        raise NotEncodable("floor division of a symbolic value by %r" % (o,))

    def __trunc__(self):
        z = self.z
        return SymReal(z3.If(z >= 0, z3.ToReal(z3.ToInt(z)), -z3.ToReal(z3.ToInt(-z))))

    def __pow__(self, k):
        if is_conc(k):
            k = exact(k)
            if k == 2:
                return self * self
            if k == 1:
                return self
            if k == 3:
                return self * self * self
            if k == Fraction(1, 2):
                return sym_sqrt(self)
        raise NotEncodable("pow %r" % (k,))

    def __abs__(self):
        r = reduced(self)
        if not isinstance(r, SymReal):
            return abs(r)
        return SymReal(z3.If(r.z >= 0, r.z, -r.z))

    # comparisons -----------------------------------------------------------
    def _cmp(self, o, f):
        if o is POISON:
            return False
        b = self._coerce(o)
        if b is None:
            return NotImplemented
        c = Ctx.cur
        if c is not None:
            from . import polyred
            if polyred.active(c):
                try:
                    d = polyred.Rewriter(c).rw(self.z - b)
                except polyred.NotPolynomial:
                    d = None
                if d is not None:
                    if z3.is_rational_value(d):
                        return bool(z3.is_true(z3.simplify(f(d, z3.RealVal(0)))))
                    return SymBool(f(d, z3.RealVal(0)))
        return SymBool(f(self.z, b))

    def __lt__(self, o): return self._cmp(o, lambda a, b: a < b)
    def __le__(self, o): return self._cmp(o, lambda a, b: a <= b)
    def __gt__(self, o): return self._cmp(o, lambda a, b: a > b)
    def __ge__(self, o): return self._cmp(o, lambda a, b: a >= b)

    def __eq__(self, o):
        if o is None or isinstance(o, str):
            return False
        return self._cmp(o, lambda a, b: a == b)

    def __ne__(self, o):
        if o is None or isinstance(o, str):
            return True
        if o is POISON:
            return True
        return self._cmp(o, lambda a, b: a != b)
    __hash__ = None

    def __deepcopy__(self, memo):
        return self

    def __copy__(self):
        return self

    def __float__(self):
        raise NotEncodable("float() of a symbolic value outside a facade")

    def is_integer(self):
        raise NotEncodable("is_integer of symbolic")

    def sqrt(self):
        return sym_sqrt(self)

    def __repr__(self):
        s = str(self.z)
        return "S(%s)" % (s if len(s) < 80 else s[:77] + "...")

    __str__ = __repr__

    def __format__(self, spec):
        return "<sym>"


def sym_div(a, b):
    """a / b with b symbolic: forks on b == 0 (poison side) unless infeasible"""
    c = ctx()
    sos = sos_terms(b.z) if isinstance(b, SymReal) else None
    b = reduced(b)
    if not isinstance(b, SymReal):
        return a / b
    bz = toz(b)
    fc = forced_const(bz)
    if fc is not None:
        if fc == 0:
            return POISON
        return a * (1 / fc) if not isinstance(a, SymReal) else SymReal(a.z * q_of(1 / fc))
    # a sum of squares vanishes iff every square does: the equivalent conjunction of (mostly linear)
    # equalities is a far better path condition than the non-linear "sum == 0"
    zero = z3.And([e == 0 for e in sos]) if sos else (bz == 0)
    if c.branch(zero):
        return POISON
    if z3.is_const(bz) or (z3.is_app(bz) and bz.decl().kind() == z3.Z3_OP_MUL
                           and all(z3.is_const(x) or z3.is_rational_value(x) for x in bz.children())):
        return SymReal(toz(a) / bz)          # monomial denominator: Laurent cancellation in polyred
    # general denominator: the reciprocal becomes an atom inv with inv * b = 1 (b != 0 on this path),
    # so that everything downstream stays polynomial in atoms
    memo = c.memo.setdefault("inv", {})
    key = bz.get_id()
    if key not in memo:
        inv = c.fresh("inv")
        c.axiom(inv, inv * bz == 1)
        memo[key] = (SymReal(inv), bz)
    return a * memo[key][0]


_FC_MEMO = {}


def forced_const(zt, use_path=True):
    """If assumptions (and the current path) force the term to one rational
    value, return it (Fraction); else None.  Two solver queries, memoised."""
    c = ctx()
    zs = z3.simplify(zt)
    if z3.is_rational_value(zs):
        return zval_to_fraction(zs)
    from . import polyred
    if polyred.active(c):
        return None          # certified reduction (reduced()) subsumes the two-query concretisation
    tv = term_vars(zs)
    if len(tv) > 12 or any("!" in v for v in tv) or len(zs.sexpr()) > 4000:
        return None
    memo = c.memo.setdefault("fc", {})
    key = zs.get_id()
    if key in memo:
        return memo[key]
    res = None
    r, m = c.solve([zs == zs], kind="concretise", timeout_ms=3000)
    if r == "sat":
        v = m.eval(zs, model_completion=True)
        if z3.is_rational_value(v):
            r2, _ = c.solve([zs != v], kind="concretise", timeout_ms=3000)
            if r2 == "unsat":
                res = zval_to_fraction(v)
    memo[key] = res
    return res


def syntactically_nonneg(t, depth=0):
    """cheap sufficient test: sums of squares, positive multiples, If of such"""
    if depth > 6:
        return False
    if z3.is_rational_value(t):
        return zval_to_fraction(t) >= 0
    if not z3.is_app(t):
        return False
    k = t.decl().kind()
    ch = t.children()
    if k == z3.Z3_OP_ADD:
        st, leaves = list(ch), []
        while st:
            c = st.pop()
            if z3.is_app(c) and c.decl().kind() == z3.Z3_OP_ADD:
                st.extend(c.children())
            else:
                leaves.append(c)
        return all(syntactically_nonneg(c, depth + 1) for c in leaves)
    if k == z3.Z3_OP_MUL:
        rest = []
        for c in ch:
            if z3.is_rational_value(c):
                if zval_to_fraction(c) < 0:
                    return False
            else:
                rest.append(c)
        # flatten nested products
        flat = []
        for c in rest:
            if z3.is_app(c) and c.decl().kind() == z3.Z3_OP_MUL:
                flat.extend(c.children())
            else:
                flat.append(c)
        if any(z3.is_rational_value(c) and zval_to_fraction(c) < 0 for c in flat):
            return False
        flat = [c for c in flat if not z3.is_rational_value(c)]
        cnt = {}
        for c in flat:
            cnt[c.get_id()] = cnt.get(c.get_id(), 0) + 1
        odd = [c for c in flat if cnt[c.get_id()] % 2]
        seen = set()
        for c in odd:
            if c.get_id() in seen:
                continue
            seen.add(c.get_id())
            if not syntactically_nonneg(c, depth + 1):
                return False
        return True
    if k == z3.Z3_OP_ITE:
        return syntactically_nonneg(ch[1], depth + 1) and syntactically_nonneg(ch[2], depth + 1)
    if k == z3.Z3_OP_POWER:
        e = ch[1]
        return z3.is_rational_value(e) and zval_to_fraction(e) % 2 == 0
    if z3.is_const(t):
        r = ctx().memo.get("radicand", {})
        return t.get_id() in r or t.get_id() in ctx().memo.get("nonneg_atoms", set())
    return False


def sos_terms(t):
    """if t is syntactically a positively weighted sum of squares, the list of squared terms"""
    if z3.is_rational_value(t):
        return [] if zval_to_fraction(t) == 0 else None
    if not z3.is_app(t):
        return None
    k = t.decl().kind()
    ch = t.children()
    if k == z3.Z3_OP_ADD:
        out = []
        st = list(ch)
        while st:
            c = st.pop()
            if z3.is_app(c) and c.decl().kind() == z3.Z3_OP_ADD:
                st.extend(c.children())
                continue
            r = sos_terms(c)
            if r is None:
                return None
            out += r
        return out
    if k == z3.Z3_OP_MUL:
        flat, st = [], list(ch)
        while st:
            c = st.pop()
            if z3.is_app(c) and c.decl().kind() == z3.Z3_OP_MUL:
                st.extend(c.children())
            else:
                flat.append(c)
        nums = [c for c in flat if z3.is_rational_value(c)]
        if any(zval_to_fraction(c) <= 0 for c in nums):
            return None
        rest = [c for c in flat if not z3.is_rational_value(c)]
        if len(rest) == 2 and rest[0].eq(rest[1]):
            return [rest[0]]
        if len(rest) == 1:
            return sos_terms(rest[0])
        return None
    if k == z3.Z3_OP_POWER and z3.is_rational_value(ch[1]) and zval_to_fraction(ch[1]) == 2:
        return [ch[0]]
    return None


def sym_sqrt(x):
    """sqrt with domain check; sqrt of a forced constant is exact/algebraic"""
    if x is POISON:
        return POISON
    c = ctx()
    nonneg = isinstance(x, SymReal) and syntactically_nonneg(x.z)
    x = reduced(x)
    if isinstance(x, SymReal):
        fc = forced_const(x.z)
        if fc is not None:
            x = fc
    if not isinstance(x, SymReal):
        x = exact(x)
        if x is POISON:
            return POISON
        if isinstance(x, Surd):
            raise NotEncodable("sqrt of a surd")
        if x < 0:
            return POISON
        fx = Fraction(x)
        n, d = math.isqrt(fx.numerator), math.isqrt(fx.denominator)
        if n * n == fx.numerator and d * d == fx.denominator:
            r = Fraction(n, d)
            return r.numerator if r.denominator == 1 else r
        return Surd(0, 1, fx)
    memo = c.memo.setdefault("sqrt", {})
    key = x.z.get_id()
    if key in memo:
        return memo[key][0]
    # domain: negative radicand -> poison (fork only if feasible)
    if not nonneg and not syntactically_nonneg(x.z) and c.branch(x.z < 0):
        return POISON
    s = c.fresh("sqrt")
    c.axiom(s, z3.And(s >= 0, s * s == x.z))
    c.memo.setdefault("radicand", {})[s.get_id()] = x.z
    memo[key] = (SymReal(s), x.z)
    return memo[key][0]


def radicand_of(v):
    """if v is the result of the sqrt stub, its radicand term, else None"""
    if isinstance(v, SymReal):
        return ctx().memo.get("radicand", {}).get(v.z.get_id())
    return None


def eq_goal(a, b):
    """z3 equality of two values; two sqrt-stub results are compared through
    their radicands (a,b>=0 and a^2=b^2 => a=b)"""
    if a is POISON or b is POISON:
        return z3.BoolVal(a is b)
    ra, rb = radicand_of(a), radicand_of(b)
    if ra is not None and rb is not None:
        return ra == rb
    return toz(a) == toz(b)


def _as_unit_norm(f):
    """if f is  w*w + x*x + y*y + z*z == 1  over four distinct constants, return (w,x,y,z)"""
    if not (z3.is_eq(f) and f.num_args() == 2):
        return None
    lhs, rhs = f.arg(0), f.arg(1)
    if not (z3.is_rational_value(rhs) and zval_to_fraction(rhs) == 1):
        return None
    leaves, st = [], [lhs]
    while st:
        x = st.pop()
        if z3.is_app(x) and x.decl().kind() == z3.Z3_OP_ADD:
            st.extend(reversed(x.children()))
        else:
            leaves.append(x)
    if len(leaves) != 4:
        return None
    vs = []
    for m in leaves:
        if not (z3.is_app(m) and m.decl().kind() == z3.Z3_OP_MUL and m.num_args() == 2 and m.arg(0).eq(m.arg(1))
                and z3.is_const(m.arg(0)) and m.arg(0).decl().kind() == z3.Z3_OP_UNINTERPRETED):
            return None
        vs.append(m.arg(0))
    if len({v.get_id() for v in vs}) != 4:
        return None
    return vs


def auto_declare_units(c):
    from . import polyred
    for f in c.assumptions:
        q = _as_unit_norm(f)
        if q is not None:
            polyred.unit_hyps_of(c).add(q)


def reduced(v):
    """value reduced modulo the path's unit-norm hypotheses / definitions"""
    if isinstance(v, SymReal):
        from . import polyred
        c = Ctx.cur
        if c is not None and polyred.active(c):
            try:
                return polyred.reduce_value(c, v)
            except polyred.NotPolynomial:
                return v
    return v


# --------------------------------------------------------------------------
# explorer
# --------------------------------------------------------------------------
class PathResult:
    def __init__(self, status, out, ctx, exc=None):
        self.status = status   # 'ok' | 'exc:<Name>' | 'notenc' | 'inconclusive' | 'infeasible'
        self.out = out
        self.ctx = ctx
        self.exc = exc

    @property
    def decisions(self):
        return [k for k, forced in self.ctx.choices if not forced]


def explore(fn, assumptions=(), timeout_ms=20000, max_paths=5000, seed=0,
            stats=None, on_path=None, expected_exc=(Exception,)):
    """Run fn() once per feasible path (DFS over decision prefixes).
    fn runs the code under test under Ctx.cur and returns any object.
    on_path(PathResult) is called while that path's context is still current
    (so obligations can be solved with its trail/axioms).  Returns the list of
    PathResult (ctx retained)."""
    stats = stats if stats is not None else Stats()
    results = []
    stack = [[]]
    npaths = 0
    while stack:
        plan = stack.pop()
        c = Ctx(assumptions, plan, timeout_ms, stats, seed)
        Ctx.cur = c
        auto_declare_units(c)
        exc = None
        try:
            out = fn()
            status = "ok"
        except InfeasiblePath:
            out, status = None, "infeasible"
        except NotEncodable as e:
            out, status, exc = None, "notenc", e
        except Inconclusive as e:
            out, status, exc = None, "inconclusive", e
        except PathBudget:
            raise
        except expected_exc as e:
            if os.environ.get("EVOVERIF_TB"):
                import traceback
                traceback.print_exc()
            out, status, exc = None, "exc:%s" % type(e).__name__, e
        for alt in c.pending:
            stack.append(alt)
        pr = PathResult(status, out, c, exc)
        if status != "infeasible":
            npaths += 1
            if on_path is not None:
                on_path(pr)
            results.append(pr)
        if npaths > max_paths:
            Ctx.cur = None
            raise PathBudget("more than %d paths" % max_paths)
    Ctx.cur = None
    return results
