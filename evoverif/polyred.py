"""Polynomial normal forms modulo the unit-quaternion hypotheses.

An *untrusted* algebra helper: it rewrites a z3 polynomial term p into a reduced
polynomial p' and cofactors c_i such that   p = p' + sum_i c_i * (|q_i|^2 - 1).
Every use is justified by the solver: the identity above is sent to z3 as an
unconditional query (no hypotheses; z3 normalises it instantly), and |q_i|^2 = 1
is an assumption of the path, hence p = p' on the path (certificate checking --
the deciding step stays with the solver).

The generators w_i^2 - (1 - x_i^2 - y_i^2 - z_i^2) have pairwise coprime leading
terms, so they are a Groebner basis for the lex order w_i > others and the
reduction is a complete ideal-membership test.
"""
from fractions import Fraction
import z3

from . import symcore as sc


class NotPolynomial(Exception):
    pass


BITS = 6                       # bits per exponent in a packed monomial
MASK = (1 << BITS) - 1
MAXDEG = MASK


def _norm(c):
    """Fractions with denominator 1 are kept as ints (fast path)"""
    if type(c) is Fraction and c.denominator == 1:
        return c.numerator
    return c


class Poly:
    """sparse multivariate polynomial {packed monomial (int): coefficient}.  A monomial is
    an int with BITS bits per variable index (product of monomials = sum of ints); variable
    indices are owned by the Converter.  deg is an upper bound of the total degree."""
    __slots__ = ("t", "deg")

    def __init__(self, t=None, deg=0):
        self.t = t if t is not None else {}
        self.deg = deg

    @staticmethod
    def const(c):
        c = _norm(Fraction(c)) if not isinstance(c, int) else c
        return Poly({0: c}, 0) if c != 0 else Poly()

    @staticmethod
    def var(idx):
        return Poly({1 << (BITS * idx): 1}, 1)

    def is_zero(self):
        return not self.t

    def is_const(self):
        return all(m == 0 for m in self.t)

    def const_value(self):
        return Fraction(self.t.get(0, 0))

    def __add__(self, o):
        if len(self.t) < len(o.t):
            self, o = o, self
        r = dict(self.t)
        for m, c in o.t.items():
            v = r.get(m, 0) + c
            if v == 0:
                r.pop(m, None)
            else:
                r[m] = v
        return Poly(r, max(self.deg, o.deg))

    def __neg__(self):
        return Poly({m: -c for m, c in self.t.items()}, self.deg)

    def __sub__(self, o):
        return self + (-o)

    def scale(self, k):
        k = _norm(Fraction(k))
        if k == 0:
            return Poly()
        return Poly({m: _norm(c * k) for m, c in self.t.items()}, self.deg)

    def __mul__(self, o):
        if self.deg + o.deg > MAXDEG:
            raise NotPolynomial("degree too large")
        a, b = (self.t, o.t) if len(self.t) <= len(o.t) else (o.t, self.t)
        if len(a) * len(b) > 4000000:
            raise NotPolynomial("polynomial product too large")
        r = {}
        get = r.get
        for m1, c1 in a.items():
            for m2, c2 in b.items():
                m = m1 + m2
                r[m] = get(m, 0) + c1 * c2
        return Poly({m: _norm(c) for m, c in r.items() if c != 0}, self.deg + o.deg)

    def __pow__(self, k):
        r = Poly.const(1)
        for _ in range(k):
            r = r * self
        return r

    def var_indices(self):
        acc = 0
        for m in self.t:
            acc |= m
        out, i = set(), 0
        while acc:
            if acc & MASK:
                out.add(i)
            acc >>= BITS
            i += 1
        return out

    def nterms(self):
        return len(self.t)


MAX_TERMS = 200000


class Converter:
    """z3 Real term <-> Poly; non-polynomial subterms become opaque atoms.  Division by a
    monomial of variables is handled with *inverse variables* (v and 1/v cancel)."""

    def __init__(self):
        self.atoms = {}      # name -> z3 term
        self.index = {}      # name -> variable index
        self.names = []      # index -> name
        self.inverse = {}    # index of v -> index of 1/v
        self.memo = {}
        self.subst = []
        self.rw_child = None
        self.nonzero = set()

    def idx(self, name):
        i = self.index.get(name)
        if i is None:
            i = len(self.names)
            self.index[name] = i
            self.names.append(name)
        return i

    def atom(self, t):
        if z3.is_const(t) and t.decl().kind() == z3.Z3_OP_UNINTERPRETED:
            n = t.decl().name()
        else:
            n = "@%d" % t.get_id()
        self.atoms[n] = t
        return Poly.var(self.idx(n))

    def inv_var(self, i):
        j = self.inverse.get(i)
        if j is None:
            n = "1/" + self.names[i]
            j = self.idx(n)
            self.inverse[i] = j
            self.nonzero.add(self.names[i])
        return j

    def cancel(self, p):
        """v * (1/v) -> 1"""
        if not self.inverse:
            return p
        r = {}
        for m, c in p.t.items():
            for i, j in self.inverse.items():
                ei, ej = (m >> (BITS * i)) & MASK, (m >> (BITS * j)) & MASK
                k = min(ei, ej)
                if k:
                    m -= (k << (BITS * i)) + (k << (BITS * j))
            v = r.get(m, 0) + c
            if v == 0:
                r.pop(m, None)
            else:
                r[m] = v
        return Poly(r, p.deg)

    def to_poly(self, t):
        k = t.get_id()
        r = self.memo.get(k)
        if r is not None:
            return r
        r = self._conv(t)
        if r.nterms() > MAX_TERMS:
            raise NotPolynomial("polynomial too large")
        self.memo[k] = r
        return r

    def _conv(self, t):
        if z3.is_rational_value(t):
            return Poly.const(sc.zval_to_fraction(t))
        if z3.is_int_value(t):
            return Poly.const(t.as_long())
        if not z3.is_app(t):
            raise NotPolynomial(str(t)[:60])
        kind = t.decl().kind()
        ch = t.children()
        if kind == z3.Z3_OP_ADD:
            # flatten nested sums iteratively (left-nested chains from accumulation loops)
            leaves, st = [], list(reversed(ch))
            while st:
                x = st.pop()
                if z3.is_app(x) and x.decl().kind() == z3.Z3_OP_ADD and x.get_id() not in self.memo:
                    st.extend(reversed(x.children()))
                else:
                    leaves.append(x)
            r = Poly()
            for c in leaves:
                r = r + self.to_poly(c)
            return r
        if kind == z3.Z3_OP_SUB:
            r = self.to_poly(ch[0])
            for c in ch[1:]:
                r = r - self.to_poly(c)
            return r
        if kind == z3.Z3_OP_UMINUS:
            return -self.to_poly(ch[0])
        if kind == z3.Z3_OP_MUL:
            r = Poly.const(1)
            for c in ch:
                r = self.cancel(r * self.to_poly(c))
                if r.nterms() > MAX_TERMS:
                    raise NotPolynomial("polynomial too large")
            return r
        if kind == z3.Z3_OP_POWER and z3.is_rational_value(ch[1]):
            e = sc.zval_to_fraction(ch[1])
            if e.denominator == 1 and 0 <= e <= 8:
                return self.to_poly(ch[0]) ** int(e)
        if kind == z3.Z3_OP_DIV and z3.is_rational_value(ch[1]):
            d = sc.zval_to_fraction(ch[1])
            if d != 0:
                return self.to_poly(ch[0]).scale(1 / d)
        if kind == z3.Z3_OP_DIV:
            pd = self.to_poly(ch[1])
            if pd.nterms() == 1:
                (m, c), = pd.t.items()
                if m:
                    inv, mm, i = 0, m, 0
                    ok = True
                    while mm:
                        e = mm & MASK
                        if e:
                            if i in self.inverse.values():
                                ok = False
                                break
                            inv += e << (BITS * self.inv_var(i))
                        mm >>= BITS
                        i += 1
                    if ok:
                        ip = Poly({inv: _norm(1 / Fraction(c))}, pd.deg)
                        return self.cancel(self.to_poly(ch[0]) * ip)
        if z3.is_const(t):
            return self.atom(t)
        return _conv_nonpoly(self, t)

    def mono_term(self, m, c):
        fs, ds, i = [], [], 0
        inv_of = {j: i2 for i2, j in self.inverse.items()}
        fl, dl = [], []
        while m:
            e = m & MASK
            if e:
                if i in inv_of:
                    dl.append((self.names[inv_of[i]], e))
                else:
                    fl.append((self.names[i], e))
            m >>= BITS
            i += 1
        # canonical factor order (by name), independent of this converter's variable indices
        for n, e in sorted(fl):
            fs.extend([self.atoms[n]] * e)
        for n, e in sorted(dl):
            ds.extend([self.atoms[n]] * e)
        if not fs:
            term = sc.q_of(c)
        else:
            prod = fs[0]
            for f in fs[1:]:
                prod = prod * f
            term = prod if c == 1 else sc.q_of(c) * prod
        if ds:
            den = ds[0]
            for f in ds[1:]:
                den = den * f
            term = term / den
        return term

    def to_z3(self, p):
        if p.is_zero():
            return z3.RealVal(0)
        # canonical order: by names of the variables (stable across converters)
        def key(item):
            m, i, out = item[0], 0, []
            while m:
                e = m & MASK
                if e:
                    out.append((self.names[i], e))
                m >>= BITS
                i += 1
            out.sort()
            return (sum(e for _, e in out), out)
        terms = [self.mono_term(m, c) for m, c in sorted(p.t.items(), key=key)]
        if len(terms) == 1:
            return terms[0]
        if len(terms) <= 8:
            r = terms[0]
            for x in terms[1:]:
                r = r + x
            return r
        return z3.Sum(terms)          # flat n-ary sum (a left-nested chain of thousands of monomials is too deep)

    def skeleton(self, full):
        if not self.subst:
            return full
        return z3.substitute(full, *self.subst)


class UnitHyps:
    """unit-norm hypotheses |q_i|^2 = 1 with leading variable w_i"""

    def __init__(self, quats=()):
        self.lead = {}     # name of w -> (names x, y, z)
        for q in quats:
            self.add(q)

    def add(self, q):
        names = []
        for v in q:
            if not (z3.is_const(v) and v.decl().kind() == z3.Z3_OP_UNINTERPRETED):
                return False
            names.append(v.decl().name())
        if names[0] in self.lead:
            return True
        self.lead[names[0]] = (tuple(names[1:]), tuple(q))
        return True

    def add_sign(self, v):
        """a scalar with v*v = 1 (sign variable)"""
        n = v.decl().name()
        if n not in self.lead:
            self.lead[n] = ((), (v,))

    def reduce(self, p, conv):
        """returns (p', cof) with p = p' + sum_w cof[w] * (w^2 + x^2 + y^2 + z^2 - 1)"""
        cof = {}
        cur = p
        present = cur.var_indices()
        for w, (xyz, _) in self.lead.items():
            iw = conv.index.get(w)
            if iw is None or iw not in present:
                continue
            sh = BITS * iw
            if not any((m >> sh) & MASK >= 2 for m in cur.t):
                continue
            rep = Poly.const(1)
            for other in xyz:
                rep = rep - Poly.var(conv.idx(other)) ** 2
            c_tot = Poly()
            while True:
                keep, high = {}, {}
                for m, c in cur.t.items():
                    if (m >> sh) & MASK >= 2:
                        m2 = m - (2 << sh)
                        high[m2] = high.get(m2, 0) + c
                    else:
                        keep[m] = c
                if not high:
                    break
                cp = Poly({m: c for m, c in high.items() if c != 0}, max(cur.deg - 2, 0))
                c_tot = c_tot + cp
                cur = Poly(keep, cur.deg) + cp * rep
                if cur.nterms() > MAX_TERMS:
                    raise NotPolynomial("polynomial too large")
            if not c_tot.is_zero():
                cof[w] = c_tot
        return cur, cof

    def gen_z3(self, w):
        q = self.lead[w][1]
        r = q[0] * q[0]
        for v in q[1:]:
            r = r + v * v
        return r - 1


def unit_hyps_of(ctx):
    h = ctx.memo.get("unit_hyps")
    if h is None:
        h = UnitHyps()
        ctx.memo["unit_hyps"] = h
    return h


def declare_unit(ctx, q):
    """harness / stub declares: |q|^2 == 1 is an assumption or axiom of the path"""
    unit_hyps_of(ctx).add([sc.toz(v) for v in q])


def expand_defs(ctx, term, limit=12):
    """substitute definitional atoms (registered in ctx.memo['defs']) by their definitions"""
    defs = ctx.memo.get("defs")
    if not defs:
        return term
    for _ in range(limit):
        vs = sc.term_vars(term)
        sub = [(defs[v][0], defs[v][1]) for v in vs if v in defs]
        if not sub:
            return term
        term = z3.substitute(term, *sub)
    return term


def register_def(ctx, atom, definition):
    ctx.memo.setdefault("defs", {})[atom.decl().name()] = (atom, definition)


_ARITH_CMP = {z3.Z3_OP_LE: lambda a: a <= 0, z3.Z3_OP_LT: lambda a: a < 0, z3.Z3_OP_GE: lambda a: a >= 0,
              z3.Z3_OP_GT: lambda a: a > 0, z3.Z3_OP_EQ: lambda a: a == 0, z3.Z3_OP_DISTINCT: lambda a: a != 0}
_CMP_CONST = {z3.Z3_OP_LE: lambda c: c <= 0, z3.Z3_OP_LT: lambda c: c < 0, z3.Z3_OP_GE: lambda c: c >= 0,
              z3.Z3_OP_GT: lambda c: c > 0, z3.Z3_OP_EQ: lambda c: c == 0, z3.Z3_OP_DISTINCT: lambda c: c != 0}


def active(ctx):
    """reduction only does something when unit hypotheses or definitions exist"""
    h = ctx.memo.get("unit_hyps")
    return bool(h and h.lead) or bool(ctx.memo.get("defs"))


_GLOBAL = {}      # cross-path cache: (id of def-expanded term, relevant unit hyps) -> (term kept alive, normal form)


class Rewriter:
    """rewrites z3 terms into normal form modulo the path's unit-norm hypotheses
    and definitional atoms; every polynomial step is certified by the solver"""

    def __init__(self, ctx):
        self.ctx = ctx
        self.hyps = unit_hyps_of(ctx)
        self.memo = ctx.memo.setdefault("rewrite_memo", {})
        self.version = (len(self.hyps.lead), len(ctx.memo.get("defs", {})))

    def rw(self, t):
        key = (t.get_id(), self.version)
        hit = self.memo.get(key)
        if hit is not None and hit[0].eq(t):
            return hit[1]
        r = self._rw(t)
        self.memo[key] = (t, r)
        return r

    def _rw(self, t):
        if z3.is_bool(t):
            return self._rw_bool(t)
        if z3.is_real(t) or z3.is_int(t):
            if z3.is_rational_value(t) or z3.is_int_value(t):
                return t
            try:
                return self._rw_arith(t)
            except NotPolynomial:
                return t
        return t

    def _rw_bool(self, t):
        if z3.is_true(t) or z3.is_false(t) or not z3.is_app(t):
            return t
        k = t.decl().kind()
        ch = t.children()
        if k in _ARITH_CMP and len(ch) == 2 and (z3.is_real(ch[0]) or z3.is_int(ch[0])) and z3.is_real(ch[0]) == z3.is_real(ch[1]):
            if z3.is_int(ch[0]):
                return t
            try:
                d = self._rw_arith(ch[0] - ch[1])
            except NotPolynomial:
                return t
            if z3.is_rational_value(d):
                return z3.BoolVal(bool(_CMP_CONST[k](sc.zval_to_fraction(d))))
            return _ARITH_CMP[k](d)
        if k in (z3.Z3_OP_AND, z3.Z3_OP_OR, z3.Z3_OP_NOT, z3.Z3_OP_IMPLIES, z3.Z3_OP_ITE, z3.Z3_OP_EQ, z3.Z3_OP_XOR):
            new = [self.rw(c) for c in ch]
            r = t.decl()(*new)
            return z3.simplify(r) if any(z3.is_true(c) or z3.is_false(c) for c in new) else r
        if ch and not z3.is_quantifier(t):
            return t.decl()(*[self.rw(c) for c in ch])
        return t

    def _rw_arith(self, t):
        """normal form of a Real term; certified"""
        ctx = self.ctx
        defs = ctx.memo.get("defs")
        if defs and any(v in defs for v in sc.term_vars(t)):
            # atom level first (definitional atoms kept as variables): cheap, and enough when both
            # sides of a comparison are built from the same intermediate products
            out0 = self._cached(t, t)
            if z3.is_rational_value(out0):
                return out0
            full = expand_defs(ctx, t)
            try:
                return self._cached(t, full)
            except NotPolynomial:
                return out0
        return self._cached(t, t)

    def _cached(self, t, full):
        gkey = (full.get_id(), tuple(sorted(w for w in self.hyps.lead if w in sc.term_vars(full))))
        hit = _GLOBAL.get(gkey)
        if hit is not None and hit[0].eq(full):
            if hit[1] is None:
                raise NotPolynomial("cached: out of reach")
            return hit[1]
        try:
            out = self._rw_arith_uncached(t, full)
        except NotPolynomial:
            _GLOBAL[gkey] = (full, None)
            raise
        if len(_GLOBAL) > 200000:
            _GLOBAL.clear()
        _GLOBAL[gkey] = (full, out)
        return out

    def _rw_arith_uncached(self, t, full):
        ctx = self.ctx
        conv = Converter()
        conv.rw_child = self.rw
        for w, (xyz, q) in self.hyps.lead.items():
            for qv in q:
                conv.atoms.setdefault(qv.decl().name(), qv)
        p = conv.to_poly(full)
        red, cof = self.hyps.reduce(p, conv)
        out = conv.to_z3(red)
        # certificate: skeleton(full) == out + sum cof * generator, unconditional
        cert = out
        for w, c in cof.items():
            cert = cert + conv.to_z3(c) * self.hyps.gen_z3(w)
        skeleton = conv.skeleton(full)
        if not skeleton.eq(cert):
            hyp = []
            for v in conv.nonzero:
                a = conv.atoms[v]
                nz = ctx.memo.setdefault("nonzero_ok", {})
                if v not in nz:
                    r, _ = ctx.solve([a == 0], kind="certificate", full=True, timeout_ms=5000)
                    nz[v] = (r == "unsat")
                if not nz[v]:
                    return t
                hyp.append(a != 0)
            check_identity(ctx, skeleton, cert, hyp)
        return out


def _conv_nonpoly(self, t):
    """non-polynomial application: rewrite its children, keep as opaque atom"""
    ch = t.children()
    if ch and getattr(self, "rw_child", None) is not None:
        new = [self.rw_child(c) for c in ch]
        if any(not a.eq(b) for a, b in zip(new, ch)):
            t2 = t.decl()(*new)
            self.subst.append((t, t2))
            t = t2
    return Converter.atom(self, t)


def _nodiv(t, inv, memo):
    """x / d -> x * w(d) with one fresh w per distinct denominator d"""
    if not sc._has_div(t):
        return t
    key = t.get_id()
    hit = memo.get(key)
    if hit is not None:
        return hit
    out = t
    if z3.is_app(t) and t.num_args():
        ch = [_nodiv(c, inv, memo) for c in t.children()]
        if t.decl().kind() == z3.Z3_OP_DIV:
            # 1 / (f1 * f2 * ...) = w_f1 * w_f2 * ...  (a product is non-zero iff every factor is)
            out, st = ch[0], [ch[1]]
            while st:
                d = st.pop()
                if z3.is_app(d) and d.decl().kind() == z3.Z3_OP_MUL:
                    st.extend(d.children())
                    continue
                if z3.is_rational_value(d):
                    out = out / d
                    continue
                if d.get_id() not in inv:
                    inv[d.get_id()] = (d, z3.Real("ci_inv!%d" % len(inv)))
                out = out * inv[d.get_id()][1]
        else:
            out = t.decl()(*ch)
    memo[key] = out
    return out


def _laurent_certificate(diff, inv):
    """diff: division-free term over the variables and the inverses w_d.  Untrusted algebra finds cofactors C_d
    with  diff == sum_d C_d * (d * w_d - 1)  as a plain polynomial identity; z3 confirms that identity (its
    rewriter normalises it to 0, else an unconditional solver query).  With d * w_d == 1 this gives diff == 0."""
    conv = Converter()
    P = conv.to_poly(diff)
    if conv.inverse:
        raise NotPolynomial("unexpected division")
    cert = None
    for d, w in inv.values():
        D = conv.to_poly(d)
        if D.nterms() != 1:
            raise NotPolynomial("denominator is not a monomial")
        (md, cd), = D.t.items()
        W = conv.to_poly(w)
        (mw, _), = W.t.items()
        lead = md + mw
        # exponents of the lead monomial
        exps, mm, i = [], lead, 0
        while mm:
            e = mm & MASK
            if e:
                exps.append((BITS * i, e))
            mm >>= BITS
            i += 1
        C = {}
        while True:
            keep, moved = {}, {}
            for m, c in P.t.items():
                if all(((m >> sh) & MASK) >= e for sh, e in exps):
                    m2 = m - lead
                    moved[m2] = moved.get(m2, 0) + Fraction(c) / Fraction(cd)
                else:
                    keep[m] = c
            if not moved:
                break
            for m2, c in moved.items():
                C[m2] = C.get(m2, 0) + c
            P = Poly(keep, P.deg) + Poly({m: _norm(c) for m, c in moved.items() if c != 0}, P.deg)
        Cp = Poly({m: _norm(c) for m, c in C.items() if c != 0}, P.deg)
        if not Cp.is_zero():
            term = conv.to_z3(Cp) * (d * w - 1)
            cert = term if cert is None else cert + term
    if not P.is_zero() or cert is None:
        return False
    zr = z3.simplify(diff - cert, som=True)
    if z3.is_rational_value(zr) and zr.numerator_as_long() == 0:
        return True
    s = z3.Solver()
    s.set("timeout", 10000)
    s.add(diff != cert)
    return s.check() == z3.unsat


def check_identity(ctx, a, b, hyp=()):
    """solver check of the (Laurent-)polynomial identity a == b; hyp: denominators != 0.
    First with divisions replaced by inverses w (d * w == 1: under d != 0 that is what x / d means; the hypotheses
    cover every denominator, else the division-free query is skipped), which nlsat decides at once; the literal
    query is the fall-back."""
    import time
    t0 = time.time()
    try:
        inv, memo = {}, {}
        r = z3.unknown
        if hyp:       # the converter met divisions by variables (else there is none to remove)
            a2, b2 = _nodiv(a, inv, memo), _nodiv(b, inv, memo)
        if inv:
            try:
                if _laurent_certificate(a2 - b2, inv):
                    return True
            except NotPolynomial:
                pass
        covered = all(any(h.eq(d != 0) for h in hyp) or (z3.is_rational_value(d) and d.numerator_as_long() != 0)
                      for d, _ in inv.values())
        if inv and covered:
            s = z3.Solver()
            s.set("timeout", 10000)
            for h in hyp:
                s.add(h)
            for d, w in inv.values():
                s.add(d * w == 1)
            s.add(a2 != b2)
            r = s.check()
        if r != z3.unsat:
            s = z3.Solver()
            s.set("timeout", 30000)
            for h in hyp:
                s.add(h)
            s.add(a != b)
            r = s.check()
    finally:
        ctx.stats.add("certificate", time.time() - t0)
    if r != z3.unsat:
        raise NotPolynomial("certificate identity not confirmed by the solver (%s)" % r)
    return True


def rewrite(ctx, term):
    if not active(ctx):
        return term
    return Rewriter(ctx).rw(term)


def reduce_value(ctx, v):
    """SymReal/number -> reduced value (exact number if it reduces to a constant)"""
    if not isinstance(v, sc.SymReal) or not active(ctx):
        return v
    out = Rewriter(ctx).rw(v.z)
    if z3.is_rational_value(out):
        return sc.mk(out)
    if out.eq(v.z):
        return v
    return sc.SymReal(out)
