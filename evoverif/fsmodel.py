"""In-memory file system + virtual processes for crash and interleaving exploration (DESIGN C19).

Every mutating primitive is a *step*.  A write of k bytes may be cut at a crash (nothing / a prefix / all of it
reaches the disk).  Processes are python threads that hand over to the scheduler at every primitive, so the
real, unmodified evo code (compiled from /repo's source) is the transition relation.
"""
import io
import json
import os
import threading


class Crash(BaseException):
    """the process is killed at this instant"""


class ProcessExit(BaseException):
    pass


class FS:
    def __init__(self, files=None, dirs=None):
        self.files = dict(files or {})        # path (str) -> bytes
        self.dirs = set(dirs or {"/", "/home"})
        self.steps = 0
        self.crash_at = None                  # step index at which the running process is killed (before the step)
        self.partial = None                   # for a write step hit by the crash: fraction written (0, 0.5)
        self.trace = []
        self.hook = None                      # called before every primitive (scheduler hand-over)

    def clone(self):
        f = FS(self.files, self.dirs)
        return f

    def snapshot(self):
        return (tuple(sorted(self.files.items())), tuple(sorted(self.dirs)))

    # -- step accounting ------------------------------------------------------
    def step(self, what, mutating=True):
        if self.hook is not None:
            self.hook(what)
        if mutating:
            if self.crash_at is not None and self.steps == self.crash_at:
                self.trace.append("CRASH before " + what)
                self.steps += 1
                raise Crash(what)
            self.steps += 1
        self.trace.append(what)

    # -- primitives -------------------------------------------------------------
    def exists(self, p):
        self.step("exists %s" % p, mutating=False)
        return p in self.files or p in self.dirs

    def isfile(self, p):
        self.step("isfile %s" % p, mutating=False)
        return p in self.files

    def mkdir(self, p, exist_ok=False, parents=False):
        self.step("mkdir %s" % p)
        if p in self.dirs or p in self.files:
            if exist_ok and p in self.dirs:
                return
            raise FileExistsError(17, "File exists", p)
        parent = os.path.dirname(p)
        if parent not in self.dirs:
            if parents:
                self.dirs.add(parent)
            else:
                raise FileNotFoundError(2, "No such file or directory", p)
        self.dirs.add(p)

    def open(self, p, mode="r", *a, **k):
        p = str(p)
        binary = "b" in mode
        if "r" in mode and "+" not in mode:
            self.step("open-read %s" % p, mutating=False)
            if p not in self.files:
                raise FileNotFoundError(2, "No such file or directory", p)
            return _ReadFile(self, p, binary)
        if "r" in mode and "+" in mode:
            self.step("open-rw %s" % p, mutating=False)
            if p not in self.files:
                raise FileNotFoundError(2, "No such file or directory", p)
            return _RWFile(self, p, binary, truncate=False)
        if "w" in mode or "x" in mode:
            if os.path.dirname(p) not in self.dirs:
                raise FileNotFoundError(2, "No such file or directory", p)
            if "x" in mode and p in self.files:
                raise FileExistsError(17, "File exists", p)
            self.step("open-truncate %s" % p)
            self.files[p] = b""
            return _RWFile(self, p, binary, truncate=True)
        if "a" in mode:
            self.step("open-append %s" % p)
            self.files.setdefault(p, b"")
            f = _RWFile(self, p, binary, truncate=False)
            f.pos = len(self.files[p])
            return f
        raise ValueError("mode %r" % mode)

    def replace(self, src, dst):
        src, dst = str(src), str(dst)
        self.step("replace %s -> %s" % (src, dst))
        if src not in self.files:
            raise FileNotFoundError(2, "No such file or directory", src)
        self.files[dst] = self.files.pop(src)      # atomic (assumed: POSIX rename)

    def remove(self, p):
        p = str(p)
        self.step("remove %s" % p)
        if p not in self.files:
            raise FileNotFoundError(2, "No such file or directory", p)
        del self.files[p]

    def write_bytes_step(self, p, pos, data):
        """one write primitive; a crash may leave a prefix"""
        if self.hook is not None:
            self.hook("write %s" % p)
        if self.crash_at is not None and self.steps == self.crash_at:
            cut = 0 if not self.partial else int(len(data) * self.partial)
            cur = self.files.get(p, b"")
            self.files[p] = cur[:pos] + data[:cut] + cur[pos + cut:]
            self.trace.append("CRASH during write %s (%d of %d bytes)" % (p, cut, len(data)))
            self.steps += 1
            raise Crash("write")
        self.steps += 1
        self.trace.append("write %s (%d bytes)" % (p, len(data)))
        cur = self.files.get(p, b"")
        self.files[p] = cur[:pos] + data + cur[pos + len(data):]


class _ReadFile:
    def __init__(self, fs, p, binary):
        self.fs, self.p, self.binary, self.pos = fs, p, binary, 0

    def read(self, n=-1):
        self.fs.step("read %s" % self.p, mutating=False)
        data = self.fs.files.get(self.p, b"")[self.pos:]
        if n is not None and n >= 0:
            data = data[:n]
        self.pos += len(data)
        return data if self.binary else data.decode("utf-8")

    def __iter__(self):
        return iter(self.read().splitlines(True))

    def seek(self, pos, whence=0):
        self.pos = pos

    def close(self):
        pass

    def __enter__(self):
        return self

    def __exit__(self, *a):
        return False


class _RWFile(_ReadFile):
    def __init__(self, fs, p, binary, truncate):
        _ReadFile.__init__(self, fs, p, binary)

    def write(self, s):
        data = s if isinstance(s, bytes) else s.encode("utf-8")
        self.fs.write_bytes_step(self.p, self.pos, data)
        self.pos += len(data)
        return len(s)

    def truncate(self, size=None):
        size = self.pos if size is None else size
        self.fs.step("truncate %s to %d" % (self.p, size))
        self.fs.files[self.p] = self.fs.files.get(self.p, b"")[:size]

    def flush(self):
        pass


class FakePath:
    """the part of pathlib.Path that evo.tools.settings uses, on the model file system"""
    fs = None
    home_dir = "/home/user"

    def __init__(self, *parts):
        self.p = os.path.join(*[str(x) for x in parts]) if parts else "."

    @classmethod
    def home(cls):
        return cls(cls.home_dir)

    def __truediv__(self, o):
        return type(self)(os.path.join(self.p, str(o)))

    def __fspath__(self):
        return self.p

    def __str__(self):
        return self.p

    def __repr__(self):
        return "FakePath(%r)" % self.p

    def __eq__(self, o):
        return str(self) == str(o)

    def __hash__(self):
        return hash(self.p)

    @property
    def parent(self):
        return type(self)(os.path.dirname(self.p))

    @property
    def name(self):
        return os.path.basename(self.p)

    def with_name(self, n):
        return type(self)(os.path.join(os.path.dirname(self.p), n))

    def with_suffix(self, s):
        return type(self)(os.path.splitext(self.p)[0] + s)

    def exists(self):
        return self.fs.exists(self.p)

    def is_file(self):
        return self.fs.isfile(self.p)

    def mkdir(self, mode=0o777, parents=False, exist_ok=False):
        return self.fs.mkdir(self.p, exist_ok=exist_ok, parents=parents)

    def open(self, mode="r", *a, **k):
        return self.fs.open(self.p, mode)

    def read_text(self, *a, **k):
        return self.fs.open(self.p, "r").read()

    def write_text(self, s, *a, **k):
        f = self.fs.open(self.p, "w")
        f.write(s)
        return len(s)

    def replace(self, target):
        self.fs.replace(self.p, str(target))
        return type(self)(str(target))

    def unlink(self, missing_ok=False):
        try:
            self.fs.remove(self.p)
        except FileNotFoundError:
            if not missing_ok:
                raise


def make_path_class(fs, home="/home/user"):
    return type("ModelPath", (FakePath,), dict(fs=fs, home_dir=home))


class FakeOS:
    """os facade for code that uses os.replace / os.path / os.access on the model"""

    def __init__(self, fs):
        self._fs = fs
        self.path = _FakeOsPath(fs)
        self.W_OK = os.W_OK
        self.name = os.name
        self.sep = os.sep
        import threading as _th
        self.getpid = lambda: 4000 + (hash(_th.current_thread().name) % 1000)

    def replace(self, a, b):
        return self._fs.replace(str(a), str(b))

    rename = replace

    def remove(self, p):
        return self._fs.remove(str(p))

    unlink = remove

    def access(self, p, mode):
        return str(p) in self._fs.files or str(p) in self._fs.dirs

    def fspath(self, p):
        return str(p)

    def makedirs(self, p, exist_ok=False):
        return self._fs.mkdir(str(p), exist_ok=exist_ok, parents=True)

    def fsync(self, fd):
        return None


class _FakeOsPath:
    def __init__(self, fs):
        self._fs = fs

    def exists(self, p):
        return self._fs.exists(str(p))

    def isfile(self, p):
        return self._fs.isfile(str(p))

    def join(self, *a):
        return os.path.join(*[str(x) for x in a])

    def dirname(self, p):
        return os.path.dirname(str(p))

    def basename(self, p):
        return os.path.basename(str(p))

    def splitext(self, p):
        return os.path.splitext(str(p))

    def abspath(self, p):
        return str(p)
