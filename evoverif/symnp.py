"""numpy facade for real-mode symbolic execution of evo.

Arrays are genuine numpy arrays (subclass SymArray, dtype object) whose
elements are exact python numbers (int/Fraction), SymReal or SymBool.  All
structural operations (indexing, slicing, views, roll, concatenate, in-place
arithmetic, aliasing) are numpy's own; numeric kernels are re-implemented over
terms.  Anything not modelled raises NotEncodable (-> inconclusive, never a
verdict).
"""
import builtins as _b
import math as _math
from fractions import Fraction

import numpy as _np
import z3

from . import symcore as sc
from .symcore import (SymReal, SymBool, NotEncodable, POISON, ctx, toz, exact,
                      is_conc, mk, sym_sqrt, boolz)

_real = _np
ndarray = _np.ndarray
newaxis = _np.newaxis
pi = Fraction(_math.pi)
inf = _math.inf
int_ = _np.int_
int64 = _np.int64
float64 = float
float_ = float
uint8 = _np.uint8
bool_ = _np.bool_
isscalar = lambda x: _np.isscalar(x) or isinstance(x, (SymReal, Fraction))  # noqa


# --------------------------------------------------------------------------
# array type
# --------------------------------------------------------------------------
def _plain(a):
    """object ndarray (base class view) of anything array-like"""
    if isinstance(a, _np.ndarray):
        if a.dtype == object:
            return a.view(_np.ndarray)
        return _conv(a)
    return _conv(a)


def _conv_scalar(v):
    if isinstance(v, (SymReal, SymBool, Fraction)) or v is POISON or v is None:
        return v
    if isinstance(v, (bool, _np.bool_)):
        return bool(v)
    if isinstance(v, (int, _np.integer)):
        return int(v)
    if isinstance(v, (float, _np.floating)):
        return exact(float(v))
    return v


def _conv(a):
    """anything -> plain object ndarray with exact elements"""
    if isinstance(a, _np.ndarray) and a.dtype != object:
        if a.dtype.kind in "iub":
            out = a.astype(object)
        elif a.dtype.kind == "f":
            out = _np.empty(a.shape, dtype=object)
            for i, v in _np.ndenumerate(a):
                out[i] = exact(float(v))
        else:
            out = a.astype(object)
        return out
    if isinstance(a, (list, tuple)):
        _check_ragged(a)
    arr = _np.array(a, dtype=object)
    if arr.dtype == object:
        flat = arr.reshape(-1) if arr.ndim else None
        if flat is None:
            arr = _np.array(_conv_scalar(arr.item()), dtype=object)
        else:
            for i in range(flat.size):
                v = flat[i]
                if isinstance(v, (float, _np.floating, _np.integer, _np.bool_)):
                    flat[i] = _conv_scalar(v)
    return arr


def _shape_of(a):
    if isinstance(a, _np.ndarray):
        return a.shape
    if isinstance(a, (list, tuple)):
        if len(a) == 0:
            return (0,)
        subs = [_shape_of(x) for x in a]
        if _b.any(s != subs[0] for s in subs):
            raise ValueError(
                "setting an array element with a sequence. The requested "
                "array has an inhomogeneous shape")
        return (len(a),) + subs[0]
    return ()


def _check_ragged(a):
    _shape_of(a)


def wrap(a):
    """-> SymArray (no copy if already an object array)"""
    p = _plain(a)
    return p.view(SymArray)


def _unwrap0(r):
    if isinstance(r, _np.ndarray) and r.ndim == 0:
        return r.item()
    return r


def _cmp_elem(op, x, y):
    if x is POISON or y is POISON:
        return op == "ne"
    if op == "lt":
        return x < y
    if op == "le":
        return x <= y
    if op == "gt":
        return x > y
    if op == "ge":
        return x >= y
    if op == "eq":
        return x == y
    return x != y


def _cmp_arrays(op, a, b):
    A = _plain(a)
    B = b if not isinstance(b, (_np.ndarray, list, tuple)) else _plain(b)
    if isinstance(B, _np.ndarray):
        A, B = _np.broadcast_arrays(A, B)
        out = _np.empty(A.shape, dtype=object)
        for i in _np.ndindex(A.shape):
            out[i] = _cmp_elem(op, A[i], B[i])
    else:
        B = _conv_scalar(B)
        out = _np.empty(A.shape, dtype=object)
        for i in _np.ndindex(A.shape):
            out[i] = _cmp_elem(op, A[i], B)
    if out.ndim == 0:
        return out.item()
    return out.view(SymArray)


def _and_all(vals):
    zs = []
    for v in vals:
        if isinstance(v, SymBool):
            zs.append(v.z)
        elif not v:
            return False
    if not zs:
        return True
    return SymBool(z3.And(zs) if len(zs) > 1 else zs[0])


def _or_any(vals):
    zs = []
    for v in vals:
        if isinstance(v, SymBool):
            zs.append(v.z)
        elif v:
            return True
    if not zs:
        return False
    return SymBool(z3.Or(zs) if len(zs) > 1 else zs[0])


class SymArray(_np.ndarray):
    __array_priority__ = 1000

    def __array_finalize__(self, obj):
        pass

    # comparisons: elementwise, no bool() coercion
    def __lt__(self, o): return _cmp_arrays("lt", self, o)
    def __le__(self, o): return _cmp_arrays("le", self, o)
    def __gt__(self, o): return _cmp_arrays("gt", self, o)
    def __ge__(self, o): return _cmp_arrays("ge", self, o)
    def __eq__(self, o): return _cmp_arrays("eq", self, o)
    def __ne__(self, o): return _cmp_arrays("ne", self, o)
    __hash__ = None

    def __and__(self, o):
        return logical_and(self, o)
    __rand__ = __and__

    def __bool__(self):
        if self.size == 1:
            return _b.bool(self.reshape(-1)[0])
        raise ValueError("The truth value of an array with more than one "
                         "element is ambiguous.")

    def __pow__(self, k):
        return power(self, k)

    def __abs__(self):
        return abs(self)

    def __matmul__(self, o):
        return dot(self, o)

    def __rmatmul__(self, o):
        return dot(o, self)

    def dot(self, o):
        return dot(self, o)

    @staticmethod
    def _index(key):
        """an index array built by the facade (np.array([0, 2])) is an object array of python ints: numpy itself
        would have made it an integer array"""
        if isinstance(key, _np.ndarray) and key.dtype == object and key.size and \
                _b.all(type(v) is int for v in key.reshape(-1)):
            return _np.asarray(key, dtype=object).astype(int)
        if isinstance(key, tuple):
            return tuple(SymArray._index(k) for k in key)
        return key

    def __getitem__(self, key):
        return _np.ndarray.__getitem__(self, SymArray._index(key))

    def __setitem__(self, key, v):
        return _np.ndarray.__setitem__(self, SymArray._index(key), v)

    def astype(self, t, **k):
        return astype(self, t)

    def mean(self, axis=None, **k): return mean(self, axis)
    def sum(self, axis=None, **k): return sum(self, axis)
    def std(self, axis=None, **k): return std(self, axis)
    def max(self, axis=None, **k): return max(self, axis)
    def min(self, axis=None, **k): return min(self, axis)
    def argmin(self, axis=None, **k): return argmin(self)
    def argmax(self, axis=None, **k): return argmax(self)
    def argsort(self, axis=-1, **k): return argsort(self)
    def cumsum(self, axis=None, **k): return cumsum(self)
    def nonzero(self): return nonzero(self)
    def all(self, axis=None, **k): return all(self)
    def any(self, axis=None, **k): return any(self)
    def trace(self, *a, **k): return trace(self)

    def round(self, *a, **k):
        raise NotEncodable("round")

    def __deepcopy__(self, memo):
        return self.view(_np.ndarray).copy().view(SymArray)

    def __reduce__(self):
        raise NotEncodable("pickling a symbolic array")

    def __format__(self, spec):
        return "<symarray>"

    def __repr__(self):
        return "SymArray(%s)" % (self.view(_np.ndarray).tolist(),)

    __str__ = __repr__


# --------------------------------------------------------------------------
# construction
# --------------------------------------------------------------------------
def array(a, dtype=None, copy=True, **k):
    if isinstance(a, _np.ndarray) and a.dtype == object:
        r = a.view(_np.ndarray).copy() if copy is not False else a.view(_np.ndarray)
        return r.view(SymArray)
    return _conv(a).view(SymArray)


def asarray(a, dtype=None, **k):
    return wrap(a)


def eye(n, *a, **k):
    return _conv([[1 if i == j else 0 for j in range(n)] for i in range(n)]).view(SymArray)


identity = eye


def _filled(shape, v):
    r = _np.empty(shape, dtype=object)
    r.fill(v)
    return r.view(SymArray)


def _is_bool_dtype(dtype):
    return dtype is bool or dtype is _np.bool_ or dtype == "bool"


def zeros(shape, dtype=None, **k):
    if _is_bool_dtype(dtype):
        return _np.zeros(shape, dtype=bool)       # genuine bool array: storing a symbolic truth value forks
    return _filled(shape, 0)


def ones(shape, dtype=None, **k):
    if _is_bool_dtype(dtype):
        return _np.ones(shape, dtype=bool)
    return _filled(shape, 1)


def diff(a, n=1, axis=-1):
    a = _conv(a)
    if n != 1 or axis not in (-1, a.ndim - 1):
        raise NotEncodable("diff with n != 1 or along another axis")
    return a[..., 1:] - a[..., :-1]


def empty(shape, dtype=None, **k):
    return _filled(shape, 0)


def full(shape, v, **k):
    return _filled(shape, _conv_scalar(v))


def zeros_like(a, **k):
    return _filled(_np.shape(a), 0)


def arange(*a, **k):
    if _b.any(isinstance(x, SymReal) for x in a):
        raise NotEncodable("arange with symbolic bounds")
    k.pop("dtype", None)
    a = [int(x) if isinstance(x, Fraction) and x.denominator == 1 else x for x in a]
    if _b.any(isinstance(x, Fraction) for x in a):
        raise NotEncodable("arange with fractional step")
    return _np.arange(*a, **k)


def linspace(a, b, n, dtype=None, **k):
    for x in (a, b, n):
        if isinstance(x, SymReal):
            raise NotEncodable("linspace with symbolic arguments")
    if dtype is int or dtype is _np.int_ or getattr(dtype, "__name__", "") in ("int", "sym_int", "int64"):
        # concrete arguments: numpy's own float truncation is what evo gets
        return _np.linspace(float(a), float(b), int(n), dtype=int)
    n = int(n)
    a, b = Fraction(exact(a)), Fraction(exact(b))
    if n == 1:
        return _conv([a]).view(SymArray)
    return _conv([a + (b - a) * i / (n - 1) for i in range(n)]).view(SymArray)


def copy(a):
    return array(a)


# --------------------------------------------------------------------------
# elementwise
# --------------------------------------------------------------------------
def _map(f, a):
    if isinstance(a, (_np.ndarray, list, tuple)):
        A = _plain(a)
        out = _np.empty(A.shape, dtype=object)
        for i in _np.ndindex(A.shape):
            out[i] = f(A[i])
        return out.view(SymArray)
    return f(_conv_scalar(a))


def _abs1(x):
    if isinstance(x, SymReal) or x is POISON:
        return x.__abs__()
    return _b.abs(x)


def abs(a):
    return _map(_abs1, a)


absolute = abs
fabs = abs


def negative(a, out=None):
    r = _map(lambda x: -x, a)
    if out is not None:
        out[...] = r
        return out
    return r


def sqrt(a):
    return _map(sym_sqrt, a)


def square(a):
    return _map(lambda x: x * x, a)


def power(a, k):
    if isinstance(k, SymReal):
        raise NotEncodable("symbolic exponent")
    kk = exact(k)
    if kk == 2:
        return _map(lambda x: x * x, a)
    if kk == 1:
        return a
    if isinstance(kk, Fraction) and _b.abs(float(kk) - 1 / 3) < 1e-15 or \
            (isinstance(k, float) and _b.abs(k - 1 / 3) < 1e-15):
        return _map(cbrt_pos, a)
    if kk == Fraction(1, 2):
        return _map(sym_sqrt, a)
    raise NotEncodable("power %r" % (k,))


def cbrt_pos(x):
    """np.power(x, 1/3): real cube root for x >= 0, NaN (poison) for x < 0"""
    if x is POISON:
        return POISON
    c = ctx()
    if not isinstance(x, SymReal):
        x = exact(x)
        if x < 0:
            return POISON
        fx = Fraction(x)
        n = round(fx.numerator ** (1 / 3))
        d = round(fx.denominator ** (1 / 3))
        for nn in (n - 1, n, n + 1):
            for dd in (d - 1, d, d + 1):
                if dd > 0 and nn ** 3 == fx.numerator and dd ** 3 == fx.denominator:
                    r = Fraction(nn, dd)
                    return r.numerator if r.denominator == 1 else r
        x = SymReal(toz(x))
    x = sc.reduced(x)
    if not isinstance(x, SymReal):
        return cbrt_pos(x)
    memo = c.memo.setdefault("cbrt", {})
    key = x.z.get_id()
    if key in memo:
        return memo[key]
    if c.branch(x.z < 0):
        return POISON
    root = _perfect_cube_root(x.z)
    if root is not None:
        # x = root^3 and x >= 0 on this path, hence root >= 0 and it is the real cube root
        memo[key] = root
        return root
    s = c.fresh("cbrt")
    c.axiom(s, z3.And(s >= 0, s * s * s == x.z))
    memo[key] = SymReal(s)
    return memo[key]


def _perfect_cube_root(z):
    """if z is a single monomial c * prod v_i^(3 k_i) with c a rational cube: its cube root"""
    from . import polyred
    try:
        conv = polyred.Converter()
        p = conv.to_poly(z)
    except polyred.NotPolynomial:
        return None
    if p.nterms() != 1:
        return None
    (mm, c), = p.t.items()
    m, i = [], 0
    while mm:
        e = mm & polyred.MASK
        if e:
            m.append((conv.names[i], e))
        mm >>= polyred.BITS
        i += 1
    if _b.any(e % 3 for _, e in m) or conv.inverse:
        return None
    c = Fraction(c)
    num, den = c.numerator, c.denominator
    sgn = -1 if num < 0 else 1
    rn, rd = _b.round(_b.abs(num) ** (1 / 3)), _b.round(den ** (1 / 3))
    if rn ** 3 != _b.abs(num) or rd ** 3 != den:
        return None
    r = Fraction(sgn * rn, rd)
    out = r
    for v, e in m:
        a = SymReal(conv.atoms[v])
        for _ in range(e // 3):
            out = out * a
    return out


def _cbrt1(x):
    """numpy.cbrt: real cube root of any real (negative for negative arguments)"""
    if x is POISON:
        return POISON
    if isinstance(x, SymReal):
        if _b.bool(x < 0):
            r = cbrt_pos(-x)
            return -r if r is not POISON else POISON
        return cbrt_pos(x)
    x = exact(x)
    return -cbrt_pos(-x) if x < 0 else cbrt_pos(x)


def cbrt(a):
    return _map(_cbrt1, a)


def deg2rad(x):
    return multiply(x, pi / 180)


def rad2deg(x):
    return multiply(x, 180 / pi)


radians = deg2rad
degrees = rad2deg


def _bin(f, a, b):
    if isinstance(a, (_np.ndarray, list, tuple)) or isinstance(b, (_np.ndarray, list, tuple)):
        A = _plain(a) if isinstance(a, (_np.ndarray, list, tuple)) else _conv_scalar(a)
        B = _plain(b) if isinstance(b, (_np.ndarray, list, tuple)) else _conv_scalar(b)
        if A is POISON or B is POISON:
            shp = A.shape if isinstance(A, _np.ndarray) else B.shape
            return _filled(shp, POISON)
        return f(A, B).view(SymArray)
    return f(_conv_scalar(a), _conv_scalar(b))


def multiply(a, b):
    return _bin(lambda x, y: x * y, a, b)


def divide(a, b):
    return _bin(lambda x, y: x / y, a, b)


true_divide = divide


def add(a, b):
    return _bin(lambda x, y: x + y, a, b)


def subtract(a, b):
    return _bin(lambda x, y: x - y, a, b)


def _eq1(x, y):
    if x is POISON or y is POISON:
        return False
    return x == y


def equal(a, b):
    return _cmp_arrays("eq", wrap(a), b)


def not_equal(a, b):
    return _cmp_arrays("ne", wrap(a), b)


def greater(a, b):
    return _cmp_arrays("gt", wrap(a), b)


def less(a, b):
    return _cmp_arrays("lt", wrap(a), b)


def logical_and(a, b):
    A, B = _np.broadcast_arrays(_plain(_np.asarray(a, dtype=object) if not isinstance(a, _np.ndarray) else a),
                                _plain(_np.asarray(b, dtype=object) if not isinstance(b, _np.ndarray) else b))
    out = _np.empty(A.shape, dtype=object)
    for i in _np.ndindex(A.shape):
        x, y = A[i], B[i]
        if isinstance(x, SymBool):
            out[i] = x & y
        elif isinstance(y, SymBool):
            out[i] = y & x
        else:
            out[i] = _b.bool(x) and _b.bool(y)
    return out.view(SymArray) if out.ndim else out.item()


def logical_or(a, b):
    A, B = _np.broadcast_arrays(_plain(a), _plain(b))
    out = _np.empty(A.shape, dtype=object)
    for i in _np.ndindex(A.shape):
        x, y = A[i], B[i]
        if isinstance(x, SymBool):
            out[i] = x | y
        elif isinstance(y, SymBool):
            out[i] = y | x
        else:
            out[i] = _b.bool(x) or _b.bool(y)
    return out.view(SymArray) if out.ndim else out.item()


def logical_not(a):
    return _map(lambda x: ~x if isinstance(x, SymBool) else (not x), a)


def _close(x, y, rtol, atol):
    if x is POISON or y is POISON:
        return False
    d = x - y
    return _abs1(d) <= atol + rtol * _abs1(y)


def isclose(a, b, rtol=Fraction(1, 10 ** 5), atol=Fraction(1, 10 ** 8)):
    rtol, atol = exact(rtol), exact(atol)
    A, B = _np.broadcast_arrays(_plain(_np.asarray(a, dtype=object) if not isinstance(a, _np.ndarray) else a),
                                _plain(_np.asarray(b, dtype=object) if not isinstance(b, _np.ndarray) else b))
    out = _np.empty(A.shape, dtype=object)
    for i in _np.ndindex(A.shape):
        out[i] = _close(A[i], B[i], rtol, atol)
    return out.view(SymArray) if out.ndim else out.item()


def allclose(a, b, rtol=Fraction(1, 10 ** 5), atol=Fraction(1, 10 ** 8)):
    r = isclose(a, b, rtol, atol)
    if isinstance(r, _np.ndarray):
        return _and_all(list(r.reshape(-1)))
    return r


def array_equal(a, b):
    A, B = _plain(a), _plain(b)
    if A.shape != B.shape:
        return False
    return _and_all([_eq1(x, y) for x, y in zip(A.reshape(-1), B.reshape(-1))])


def all(a, axis=None):
    if axis is not None:
        raise NotEncodable("all(axis)")
    if isinstance(a, (SymBool, bool)):
        return a
    return _and_all(list(_plain(a).reshape(-1)))


def any(a, axis=None):
    if axis is not None:
        raise NotEncodable("any(axis)")
    if isinstance(a, (SymBool, bool)):
        return a
    return _or_any(list(_plain(a).reshape(-1)))


# --------------------------------------------------------------------------
# decisions that determine structure (fork)
# --------------------------------------------------------------------------
def _truth(v):
    """python truth of an element; symbolic -> fork"""
    if isinstance(v, SymBool):
        return _b.bool(v)
    if isinstance(v, SymReal):
        return _b.bool(v != 0)
    if v is POISON:
        return True
    return _b.bool(v)


def count_nonzero(a):
    return _b.sum(1 for x in _plain(a).reshape(-1) if _truth(x))


def nonzero(a):
    A = _plain(a)
    if A.ndim != 1:
        raise NotEncodable("nonzero on ndim != 1")
    return (_np.array([i for i, x in enumerate(A) if _truth(x)], dtype=int),)


def where(c, *xy):
    if xy:
        x, y = xy
        C = _plain(c)
        X, Y = _np.broadcast_arrays(_plain(_np.asarray(x, dtype=object)), _plain(_np.asarray(y, dtype=object)))
        C, X, Y = _np.broadcast_arrays(C, X, Y)
        out = _np.empty(C.shape, dtype=object)
        for i in _np.ndindex(C.shape):
            cv = C[i]
            if isinstance(cv, SymBool):
                out[i] = mk(z3.If(cv.z, toz(X[i]), toz(Y[i])))
            else:
                out[i] = X[i] if cv else Y[i]
        return out.view(SymArray)
    return nonzero(c)


def argwhere(c):
    return nonzero(c)[0].reshape(-1, 1)


def flatnonzero(c):
    return nonzero(_plain(c).reshape(-1))[0]


def _lt(x, y):
    """strict order test used by argmin/sort (forks when symbolic)"""
    r = x < y
    return _b.bool(r)


def argmin(a, axis=None):
    A = _plain(a).reshape(-1)
    if A.size == 0:
        raise ValueError("attempt to get argmin of an empty sequence")
    best = 0
    for i in range(1, len(A)):
        if _lt(A[i], A[best]):      # strict: first minimum wins, like numpy
            best = i
    return best


def argmax(a, axis=None):
    A = _plain(a).reshape(-1)
    if A.size == 0:
        raise ValueError("attempt to get argmax of an empty sequence")
    best = 0
    for i in range(1, len(A)):
        if _lt(A[best], A[i]):
            best = i
    return best


def argsort(a, axis=-1, kind=None):
    A = _plain(a)
    if A.ndim != 1:
        raise NotEncodable("argsort ndim")
    idx = list(range(len(A)))
    # insertion sort (stable); every comparison may fork
    for i in range(1, len(idx)):
        j = i
        while j > 0 and _lt(A[idx[j]], A[idx[j - 1]]):
            idx[j], idx[j - 1] = idx[j - 1], idx[j]
            j -= 1
    return _np.array(idx, dtype=int)


def sort(a, axis=-1):
    A = wrap(a)
    return A[argsort(A)]


def unique(a, return_index=False, return_inverse=False, return_counts=False, **k):
    if return_inverse or return_counts or k:
        raise NotEncodable("unique(return_inverse / return_counts / axis)")
    A = wrap(a)
    if A.ndim != 1:
        raise NotEncodable("unique of a %d-d array" % A.ndim)
    if len(A) == 0:
        return (A, _np.array([], dtype=int)) if return_index else A
    order = argsort(A)              # stable: among equal values the first occurrence comes first
    keep = [0]
    for i in range(1, len(order)):
        if _b.bool(A[order[i]] != A[order[keep[-1]]]):
            keep.append(i)
    first = _np.array([order[i] for i in keep], dtype=int)
    return (A[first], first) if return_index else A[first]


def searchsorted(a, v, side="left", sorter=None):
    """insertion index into the ascending 1-d array a: the number of elements < v (left) or <= v (right);
    every comparison may fork"""
    if sorter is not None:
        raise NotEncodable("searchsorted(sorter)")
    A = _plain(a)
    if A.ndim != 1 or side not in ("left", "right"):
        raise NotEncodable("searchsorted arguments")

    def one(x):
        x = _conv_scalar(x)
        n = 0
        for e in A:
            if _b.bool((e < x) if side == "left" else (e <= x)):
                n += 1
        return n
    if isinstance(v, (_np.ndarray, list, tuple)):
        return _np.array([one(x) for x in _plain(v).reshape(-1)], dtype=int).reshape(_np.shape(v))
    return one(v)


# value-only selections: If-terms, no forking (state merging)
def _min2(x, y):
    if not isinstance(x, SymReal) and not isinstance(y, SymReal):
        return x if x <= y else y
    return mk(z3.If(toz(x) <= toz(y), toz(x), toz(y)))


def _max2(x, y):
    if not isinstance(x, SymReal) and not isinstance(y, SymReal):
        return x if x >= y else y
    return mk(z3.If(toz(x) >= toz(y), toz(x), toz(y)))


def _reduce(f, a, axis, what):
    A = _plain(a)
    if A.size == 0:
        raise ValueError("zero-size array to reduction operation %s which has no identity" % what)
    if axis is None:
        xs = list(A.reshape(-1))
        r = xs[0]
        for x in xs[1:]:
            r = f(r, x)
        return r
    raise NotEncodable("%s(axis)" % what)


def min(a, axis=None):
    return _reduce(_min2, a, axis, "minimum")


def max(a, axis=None):
    return _reduce(_max2, a, axis, "maximum")


amin, amax = min, max
def _bin_elem(f, a, b):
    """f applied element by element (with broadcasting) to arrays / scalars"""
    arr = isinstance(a, (_np.ndarray, list, tuple)) or isinstance(b, (_np.ndarray, list, tuple))
    if not arr:
        return f(_conv_scalar(a), _conv_scalar(b))
    A = _plain(_conv(a)) if isinstance(a, (_np.ndarray, list, tuple)) else _np.array(_conv_scalar(a), dtype=object)
    B = _plain(_conv(b)) if isinstance(b, (_np.ndarray, list, tuple)) else _np.array(_conv_scalar(b), dtype=object)
    A, B = _np.broadcast_arrays(A, B)
    out = _np.empty(A.shape, dtype=object)
    for idx in _np.ndindex(*A.shape):
        out[idx] = f(A[idx], B[idx])
    return out.view(SymArray)


def minimum(a, b):
    return _bin_elem(_min2, a, b)


def maximum(a, b):
    return _bin_elem(_max2, a, b)


def clip(a, lo, hi, out=None):
    if out is not None:
        raise NotEncodable("clip(out=)")
    lo, hi = _conv_scalar(lo), _conv_scalar(hi)
    return _map(lambda x: x if x is POISON else _min2(_max2(x, lo), hi), a)


def _arccos1(x):
    """acos of a value: the uninterpreted acos* (stubs) on [-1, 1]; outside that numpy returns nan"""
    from . import stubs
    if x is POISON:
        return POISON
    if isinstance(x, SymReal):
        if not ctx().branch(z3.And(toz(x) >= -1, toz(x) <= 1)):
            return POISON
    elif x < -1 or x > 1:
        return POISON
    return stubs.acos_term(x)


def arccos(a):
    return _map(_arccos1, a)


def sin(a):
    from . import stubs
    return _map(stubs._sin, a)


def cos(a):
    from . import stubs
    return _map(stubs._cos, a)


def arctan2(y, x):
    from . import stubs
    return _bin_elem(stubs.atan2, y, x)


def cross(a, b):
    A, B = _plain(_conv(a)), _plain(_conv(b))
    if A.shape[-1] != 3 or B.shape[-1] != 3:
        raise NotEncodable("cross of non-3-vectors")
    A, B = _np.broadcast_arrays(A, B)
    out = _np.empty(A.shape, dtype=object)
    out[..., 0] = A[..., 1] * B[..., 2] - A[..., 2] * B[..., 1]
    out[..., 1] = A[..., 2] * B[..., 0] - A[..., 0] * B[..., 2]
    out[..., 2] = A[..., 0] * B[..., 1] - A[..., 1] * B[..., 0]
    return out.view(SymArray)


def median(a, axis=None):
    xs = list(_plain(a).reshape(-1))
    n = len(xs)
    if n == 0:
        return POISON
    if not _b.any(isinstance(x, SymReal) for x in xs):
        s = sorted(xs)
        return s[n // 2] if n % 2 else (s[n // 2 - 1] + s[n // 2]) / Fraction(2)
    # sorting network of min/max terms (odd-even transposition), merged state
    xs = list(xs)
    for rnd in range(n):
        for i in range(rnd % 2, n - 1, 2):
            lo, hi = _min2(xs[i], xs[i + 1]), _max2(xs[i], xs[i + 1])
            xs[i], xs[i + 1] = lo, hi
    return xs[n // 2] if n % 2 else (xs[n // 2 - 1] + xs[n // 2]) / 2


def percentile(a, q, **k):
    raise NotEncodable("percentile")


# --------------------------------------------------------------------------
# reductions / linear algebra
# --------------------------------------------------------------------------
def sum(a, axis=None, **k):
    A = _plain(a)
    if A.size == 0:
        return 0
    r = _np.sum(A, axis=axis)
    return _unwrap0(r) if not isinstance(r, _np.ndarray) or r.ndim == 0 else r.view(SymArray)


def mean(a, axis=None, **k):
    A = _plain(a)
    if A.size == 0:
        return POISON
    if axis is None:
        return _unwrap0(_np.sum(A)) / A.size
    s = _np.sum(A, axis=axis)
    n = A.shape[axis]
    return (s / Fraction(n) if False else _np.array([x / n for x in s.reshape(-1)], dtype=object).reshape(s.shape)).view(SymArray)


def std(a, axis=None, **k):
    if axis is not None:
        raise NotEncodable("std(axis)")
    A = _plain(a).reshape(-1)
    if A.size == 0:
        return POISON
    m = mean(A)
    return sym_sqrt(mean(_np.array([(x - m) * (x - m) for x in A], dtype=object)))


def cumsum(a, axis=None):
    A = _plain(a)
    if A.ndim != 1:
        raise NotEncodable("cumsum ndim")
    out, s = [], 0
    for x in A:
        s = s + x
        out.append(s)
    return _conv(out).view(SymArray) if out else _np.empty((0,), dtype=object).view(SymArray)


def trace(a, offset=0, axis1=0, axis2=1, **k):
    A = _plain(a)
    if offset != 0 or k:
        raise NotEncodable("trace(offset / dtype / out)")
    if A.ndim == 2 and (axis1, axis2) in ((0, 1), (1, 0)):
        s = 0
        for i in range(_b.min(A.shape[0], A.shape[1])):
            s = s + A[i, i]
        return s
    if A.ndim == 3 and (axis1, axis2) in ((1, 2), (2, 1), (-2, -1)):
        out = _np.empty((A.shape[0],), dtype=object)
        for j in range(A.shape[0]):
            out[j] = trace(A[j])
        return out.view(SymArray)
    raise NotEncodable("trace of a %d-d array along axes %r, %r" % (A.ndim, axis1, axis2))


def diag(a):
    A = _plain(a)
    if A.ndim == 1:
        r = zeros((len(A), len(A)))
        for i, v in enumerate(A):
            r[i, i] = v
        return r
    return _np.diag(A).view(SymArray)


def outer(a, b):
    return _np.outer(_plain(a), _plain(b)).view(SymArray)


def transpose(a, *x):
    return wrap(a).transpose(*x)


def concatenate(xs, axis=0):
    ys = [_plain(x) for x in xs]
    return _np.concatenate(ys, axis=axis).view(SymArray)


def append(a, b, axis=None):
    if axis is not None:
        raise NotEncodable("append(axis)")
    return concatenate([_plain(a).reshape(-1), _plain(b).reshape(-1)])


def column_stack(xs):
    return _np.column_stack([_plain(x) for x in xs]).view(SymArray)


def vstack(xs):
    return _np.vstack([_plain(x) for x in xs]).view(SymArray)


def hstack(xs):
    return _np.hstack([_plain(x) for x in xs]).view(SymArray)


def stack(xs, axis=0):
    return _np.stack([_plain(x) for x in xs], axis=axis).view(SymArray)


def roll(a, k, axis=None):
    return _np.roll(_plain(a), k, axis=axis).view(SymArray)


def reshape(a, shape):
    return wrap(a).reshape(shape)


def ravel(a):
    return wrap(a).ravel()


def shape(a):
    return _np.shape(a)


def size(a):
    return _np.size(a)


def ndim(a):
    return _np.ndim(a)


def fromiter(it, dtype=None, count=-1, **k):
    """numpy.fromiter: a 1-D array of the iterable's items, each converted like astype(dtype)"""
    items = list(it)
    if count is not None and count >= 0:
        if len(items) < count:
            raise ValueError("iterator too short")
        items = items[:count]
    flat = _np.empty(len(items), dtype=object)
    for i, v in enumerate(items):
        flat[i] = v
    return astype(flat, float if dtype is None else dtype)


def astype(a, t):
    A = _plain(a)
    tn = getattr(t, "__name__", t)
    if tn in ("sym_float", "float", "float64"):
        t = float
    elif tn in ("sym_int", "int", "int64"):
        t = int
    if t in (float, _np.float64, "float", "float64", object):
        out = _np.empty(A.shape, dtype=object)
        for i in _np.ndindex(A.shape):
            out[i] = to_float(A[i])
        return out.view(SymArray)
    if t in (int, _np.int_, _np.int64, "int"):
        out = _np.empty(A.shape, dtype=int)
        for i in _np.ndindex(A.shape):
            v = A[i]
            if isinstance(v, SymReal):
                raise NotEncodable("astype(int) of symbolic")
            out[i] = int(v)
        return out
    if t is str:
        return A.astype(str)
    raise NotEncodable("astype %r" % (t,))


# hook for text cells (set by textcells): str -> value
CELL_PARSER = [None]


def to_float(v):
    """the facade's float(): exact, symbolic passes through"""
    if isinstance(v, (SymReal,)) or v is POISON:
        return v
    if isinstance(v, (bool, _np.bool_)):
        return int(v)
    if isinstance(v, (int, Fraction)):
        return v
    if isinstance(v, (float, _np.floating)):
        return exact(float(v))
    if isinstance(v, _np.integer):
        return int(v)
    if isinstance(v, (str, bytes)):
        if isinstance(v, bytes):
            v = v.decode()
        p = CELL_PARSER[0]
        if p is not None:
            r = p(v)
            if r is not None:
                return r
        f = float(v)          # raises ValueError like numpy/python do
        return exact(f) if f == f and f not in (inf, -inf) else POISON
    if isinstance(v, _np.ndarray) and v.size == 1:
        return to_float(v.reshape(-1)[0])
    raise TypeError("float() argument must be a string or a real number, not %r" % type(v).__name__)


_PROD_ATOM_SIZE = 6


def _key(M):
    out = []
    for x in M.reshape(-1):
        if isinstance(x, SymReal):
            out.append(("z", x.z.get_id()))
        else:
            out.append(("c", x))
    return tuple(out) + (M.shape,)


def dot(a, b):
    """matrix product with content-addressed memo; rotation blocks go through
    the provenance registry (symrot)"""
    from . import symrot
    A, B = _plain(a), _plain(b)
    if A.ndim == 0 or B.ndim == 0:
        return multiply(a, b)
    c = ctx()
    memo = c.memo.setdefault("dot", {})
    key = (_key(A), _key(B))
    hit = memo.get(key)
    if hit is not None:
        return hit.copy().view(SymArray) if isinstance(hit, _np.ndarray) else hit
    res = symrot.rot_dot(A, B)
    if res is None:
        res = _np.dot(A, B)
    if isinstance(res, _np.ndarray):
        memo[key] = res.view(_np.ndarray)
        return res.copy().view(SymArray)
    memo[key] = res
    return res


matmul = dot


class finfo:
    def __init__(self, dt=None):
        self.eps = Fraction(_np.finfo(float).eps)
        self.max = Fraction(_np.finfo(float).max)
        self.tiny = Fraction(_np.finfo(float).tiny)


class _Linalg:
    @staticmethod
    def norm(a, axis=None, ord=None):
        from . import symrot
        if ord is not None:
            raise NotEncodable("norm ord")
        A = _plain(a)
        if axis is None:
            th = symrot.rotvec_angle(A)
            if th is not None:
                return th
            s = 0
            for x in A.reshape(-1):
                s = s + x * x
            return sym_sqrt(s)
        if axis == 1 and A.ndim == 2:
            if A.shape[0] == 0:
                return _np.empty((0,), dtype=object).view(SymArray)
            return _conv([_Linalg.norm(r) for r in A]).view(SymArray)
        raise NotEncodable("norm axis=%r" % (axis,))

    @staticmethod
    def det(a):
        from . import symrot
        A = _plain(a)
        if A.shape == (3, 3):
            r = symrot.lookup(A)
            if r is not None:
                # Lemma D (lemmas.py): |q| = 1  =>  det(sigma R(q)) = sigma
                ctx().memo.setdefault("lemmas_used", set()).add("D")
                return r.sigma
            return (A[0, 0] * (A[1, 1] * A[2, 2] - A[1, 2] * A[2, 1])
                    - A[0, 1] * (A[1, 0] * A[2, 2] - A[1, 2] * A[2, 0])
                    + A[0, 2] * (A[1, 0] * A[2, 1] - A[1, 1] * A[2, 0]))
        if A.shape == (2, 2):
            return A[0, 0] * A[1, 1] - A[0, 1] * A[1, 0]
        raise NotEncodable("det shape %r" % (A.shape,))

    @staticmethod
    def svd(a, *x, **k):
        from . import stubs
        return stubs.svd(_plain(a))

    @staticmethod
    def eigh(a, *x, **k):
        from . import stubs
        return stubs.eigh(_plain(a))

    @staticmethod
    def inv(a):
        raise NotEncodable("linalg.inv")


linalg = _Linalg()


class _Lib:
    class format:
        MAGIC_PREFIX = _np.lib.format.MAGIC_PREFIX
        MAGIC_LEN = _np.lib.format.MAGIC_LEN


lib = _Lib()


def seterr(**k):
    return {}


class errstate:
    def __init__(self, **k):
        pass

    def __enter__(self):
        return self

    def __exit__(self, *a):
        return False


# I/O entry points are provided by textcells when a harness installs them
def savetxt(*a, **k):
    from . import textcells
    return textcells.savetxt(*a, **k)


def loadtxt(*a, **k):
    from . import textcells
    return textcells.loadtxt(*a, **k)


def save(*a, **k):
    from . import textcells
    return textcells.save(*a, **k)


def load(*a, **k):
    from . import textcells
    return textcells.load(*a, **k)


def __getattr__(name):
    if name.startswith("__"):
        raise AttributeError(name)
    raise NotEncodable("numpy.%s is not modelled by the facade" % name)
